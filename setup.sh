#!/bin/bash
# Offline setup: verify the interpreter and build the numba cache for /repo's current tree.
set -e
cd "$(dirname "$0")"
/venv/bin/python -c "import numba, numpy, xarray, transitions, rasterio, json_checker; print('deps ok', numba.__version__)"
/venv/bin/python - <<'PY'
import sys, time
sys.path.insert(0, '/verif')
from sim import boot
t = time.time()
boot.boot()
print('pandora imported from', boot.REPO, 'cache', boot.info()['cache_dir'], 'in %.1fs' % (time.time() - t))
PY
