#!/usr/bin/env python3
"""Regenerates /verif/MANIFEST.json from the table below; only checks whose file exists are listed."""
import json
import os
import subprocess

V = os.path.dirname(os.path.dirname(os.path.abspath(__file__)))

TECH = "deterministic simulation with fault injection: "
CHECKS = {
    "C01": dict(
        level="exploration",
        technique=TECH + "seeded programs and check/run histories on one machine object vs the documented DFA and an "
        "executed-step-history model",
        text="Seeded search over step-name programs (all 1111 kind sequences of length <= 3 as a floor, then random DFA "
        "walks, single edits, uniform sequences, one-bad-parameter walks, suffix-only and multi-dot names) and "
        "histories of check/run operations on one machine (repeats, another legal ordering or a superset pipeline "
        "checked first or in between, the checked configuration run on a brand-new machine); verdicts are compared with "
        "the documented automaton, the "
        "executed callbacks and plugin-method calls (order, count, side; for filter steps also the parameters of the object called) with a reference history model, machine "
        "state/transitions after every operation, and repeats must be identical. Sampling, not proof.",
        note="trusts: transitions' dispatch by callback name (probes are instance attributes), identity stubs for the "
        "two plugin-only step kinds, the DFA transcribed from docs/source/userguide/sequencing.rst",
        ref="§5 C01",
    ),
    "C04": dict(
        level="exploration",
        technique=TECH + "seeded legal programs with repeated in-place steps, per-step flag monitors on both sides",
        text="Seeded worlds (masks, nodata, interval shapes) x legal programs biased to repeat refinement, filter and "
        "validation; at every step event on every computed side monitors check flag<=>all-NaN<=>invalid disparity, "
        "each bit against a brute-force evaluation of its documented cause, and a per-step frame rule (only the "
        "step's own documented bits may change, nothing is cleared, no bit >= 4096).",
        note="trusts the snapshot probes; bit causes read over the global integer interval with 'outside the right "
        "image' = window does not fit; bit 11 tolerated on border pixels (C10 allows it on any pixel)",
        ref="§5 C04",
    ),
    "C05": dict(
        level="exploration",
        technique=TECH + "seeded histories of class-level and pipeline-level checks over shared class/module schema "
        "state vs a parameter table model",
        text="Histories of 2..12 configuration checks in one process (step classes visited in seeded order, input "
        "sections alternating disparity forms) compared operation by operation with a table of the documented "
        "defaults and domains; user dictionaries must be left untouched, re-checking must be idempotent, and the "
        "verdict must not depend on what was checked before (each operation is also executed alone in a fork of the "
        "pristine process); pipeline checks sharing one machine must leave earlier returned configurations intact.",
        note="the model is restricted to the defaults/domains the statement names; values where docs, statement and "
        "code disagree are not offered",
        ref="§5 C05",
    ),
    "C06": dict(
        level="exploration",
        technique=TECH + "seeded legal programs placing refinement after every legal prefix, per-event monitors, "
        "totality under every prefix",
        text="Seeded worlds (flat, tied, NaN-holed cost curves) x programs with refinement after WTA, filters, "
        "validation-with-filling and other refinements; at every refinement event: invalid pixels untouched, shift "
        "<= half a sample, result inside the interval, only bit 3 may change, and for on-sample inputs the bit-3 "
        "rule, the V-fit/parabola optimum and the coefficient; the step must never raise.",
        note="fit/bit-3 clauses asserted only for on-sample inputs; float64 reference with 1e-4 tolerance",
        ref="§5 C06",
    ),
    "C08": dict(
        level="exploration",
        technique=TECH + "seeded programs executed on the machine with left/right passes interleaved on shared "
        "objects vs the mirrored program; bit-exact digests",
        text="For each seeded world and legal program with a validation step three runs on fresh machines: original, "
        "mirrored (images and masks exchanged, interval negated and swapped) and without validation; right products "
        "must be bit-identical to the mirrored run's left products and conversely, the right dataset empty without "
        "validation, cross-checking without filling must not touch the left disparity map.",
        note="bit-exact comparison between executions of the same code; no reference arithmetic",
        ref="§5 C08",
    ),
    "C10": dict(
        level="exploration",
        technique=TECH + "seeded block-partition schedules (chunk-size knob) and filter-after-any-prefix programs; "
        "reference median / bilateral models",
        text="Filter events on maps produced by real prefixes, re-run under seeded internal block sizes "
        "(1,2,3,5,7,50,100) and on images straddling the shipped 50/100 blocks; mask unchanged (bit 11 only for "
        "median_for_intervals), invalid and near-edge pixels untouched, every other valid pixel equals the reference "
        "median / Gaussian weighted mean of its valid neighbours and lies within their range; result bit-identical "
        "across block partitions.",
        note="uses the guarded chunk-size hook in /repo; bilateral reference in float64 with 1e-4 tolerance",
        ref="§5 C10",
    ),
    "C12": dict(
        level="exploration",
        technique=TECH + "seeded programs with any number/order of confidence steps; differential runs with/without "
        "each step; bracketed definition oracles",
        text="Programs with 0..5 confidence steps in any order and with suffixes: each event must append exactly its "
        "own bands (suffix = everything after the step kind) and leave earlier bands and the cost volume bit-identical; "
        "the program with and without its "
        "confidence steps must give bit-identical disparity map and mask; band values are checked against float64 "
        "definitions with epsilon-bracketed thresholds (for max-type measures the curve is mirrored: best = largest cost).",
        note="precondition (>= 2 distinct finite costs) enforced on the actual volume; tolerance/bracketing as in "
        "DESIGN §3.3",
        ref="§5 C12",
    ),
    "C15": dict(
        level="exploration",
        technique=TECH + "seeded multiscale programs; ordering/exactly-once oracle over the executed-step history",
        text="Seeded worlds and programs around a multiscale step; the event log must show num_scales executions of "
        "the pre-multiscale steps on images shrinking by scale_factor from coarse to fine, post-multiscale steps "
        "once at full size, the next level's per-pixel intervals derived from the coarser valid disparities, and "
        "untouched caller datasets.",
        note="image sizes per level taken as ceil(size / scale_factor**k); interval rule checked with the tolerance "
        "the statement gives (coarse pixel within one pixel of the geometric parent)",
        ref="§5 C15",
    ),
    "C17": dict(
        level="fault_enumeration",
        technique=TECH + "seeded fault sequences on datasets / input sections (well-formedness model) and a complete "
        "single-fault sweep over the I/O seam of each sampled CLI run",
        text="Fault operators (breaking / preserving) applied in seeded sequences to well-formed dataset pairs and "
        "input sections (incl. fault-then-repair at the same path, grids in narrow / unsigned integer sample types), verdict of check_datasets / check_input_section "
        "compared with a well-formedness model in "
        "histories; for sampled CLI scenarios an OSError is injected at every read-open index k in turn: the run must "
        "refuse before any matching-cost event.",
        note="only faults whose classification is unambiguous under the statement are generated; I/O faults at call "
        "granularity through pandora.img_tools.rasterio_open",
        ref="§5 C17",
    ),
    "C18": dict(
        level="exploration",
        technique=TECH + "simulated prange thread schedules of the kernels' own source (seeded scheduler, split "
        "read-modify-write), seeded run/check/abort histories over several machines, sampled real thread counts",
        text="(a) every numba prange kernel's Python source is rewritten so each outer iteration is a generator "
        "yielding after every statement and a seeded scheduler interleaves 2-4 simulated threads: outputs must be "
        "bit-identical to the sequential schedule; (b) histories of check/run/abort operations on several machines "
        "and step classes (near-twin and band-twin pipelines, multiscale, aborted runs, rejected checks, twins "
        "just outside a parameter domain that a pristine process refuses): every "
        "successful run's digest must equal the fresh-machine reference, a refusal must stay a refusal, and caller "
        "datasets stay untouched; (c) real builds with 1/2/16 threads and parallel off, sampled.",
        note="memory model: sequential consistency at statement granularity plus split a[i] op= v; real numba thread "
        "interleavings are sampled, not steered",
        ref="§5 C18",
    ),
    "C19": dict(
        level="exploration",
        technique=TECH + "CLI runs against a recording/fault-injecting I/O seam, restart = fresh process that sees "
        "only the files, replay of the saved configuration, write-fault sweep",
        text="pandora.main on seeded worlds written as GeoTIFF (one in four after an earlier job of the same process read "
        "other rasters at the same paths); a separate reader process compares the files with the "
        "captured in-memory products (names, dtypes, pixels incl. NaN, band descriptions, georeferencing, config + "
        "margins); the saved configuration is replayed in a fresh interpreter and must reproduce byte-equal rasters; "
        "an OSError at the k-th write-open / makedirs / config open must make main raise.",
        note="GDAL writes are C-level: faults at call granularity, whole files observed after restart",
        ref="§5 C19",
    ),
    "C20": dict(
        level="exploration",
        technique=TECH + "seeded check-phase programs and histories on machine objects vs a dictionary model of the "
        "margins registry",
        text="After check_conf of every accepted seeded program the machine's margins registry must equal a "
        "dictionary model (cumulative / non-cumulative / global), be unaffected by the second checking round, by a "
        "repeated check, monotone under step insertion, and for step in {1,2,3,5}.",
        note="apart from second-round / repeat clauses this is a function of the program; the simulator contributes "
        "the program generator and the machine-state oracle",
        ref="§5 C20",
    ),
}

NOT_APPLICABLE = {
    "C02": "pure function of one image pair and one matching-cost configuration (plain numpy kernels, no prange): no "
    "schedule, history, fault or I/O for a simulator to search",
    "C03": "winner-takes-all is a pure function of one cost volume; its 100-pixel block loop is sequential and the "
    "quantifier is over inputs only",
    "C07": "cross-checking is a pure function of two disparity maps, masks and a threshold",
    "C09": "a relation between two independent runs differing only in the requested interval; each run is a pure "
    "function of its input",
    "C11": "cbca aggregation is a pure function of one cost volume and image pair (njit without prange)",
    "C13": "locality relates a run on an image to a run on its crop/flip: two pure functions of their inputs with no "
    "shared state",
    "C14": "occlusion/mismatch filling is a pure function of one flagged map (njit without prange)",
    "C16": "dataset construction is a pure function of the files' content and the ROI; the property puts no fault, "
    "ordering or concurrency on the read path (unreadable inputs belong to C17)",
}


def main():
    hooks = subprocess.run(
        ["git", "-C", "/repo", "log", "--format=%h %s"], capture_output=True, text=True
    ).stdout.splitlines()
    hook_commits = [l.split()[0] for l in hooks if l.split(" ", 1)[1].startswith("verif hook")]
    checks = []
    na = dict(NOT_APPLICABLE)
    for pid, c in CHECKS.items():
        f = os.path.join(V, "checks", pid.lower() + ".py")
        if not os.path.exists(f):
            na[pid] = "simulation target (DESIGN.md §5) whose check is not built yet in this tree; not claimed"
            continue
        checks.append(
            {
                "property_id": pid,
                "quick_cmd": f"./run_check.sh {pid} quick",
                "thorough_cmd": f"./run_check.sh {pid} thorough",
                "evidence_file": f"/verif/evidence/{pid}.json",
                "replay_cmd_template": f"./run_check.sh {pid} --replay {{path}}",
                "engine": "pandora-dsim",
                "level_claimed": {"category": c["level"], "text": c["text"], "design_ref": "DESIGN.md " + c["ref"]},
                "level_note": c["note"],
                "technique": c["technique"],
            }
        )
    m = {
        "version": 1,
        "setup_cmd": "./setup.sh",
        "hooks": {
            "guard": "PANDORA_VERIF",
            "enable": "environment variable PANDORA_VERIF=1 set by sim/boot.py before pandora is imported from "
            "/repo's working tree (pure Python, nothing to build); knob values are set through pandora._verif._knobs",
            "baseline_off_cmd": "./baseline_off.sh",
            "source_commits": hook_commits,
            "add_only": True,
        },
        "engines": [
            {
                "name": "pandora-dsim",
                "path": "/verif/sim",
                "serves_properties": [c["property_id"] for c in checks],
                "kind_free_text": "seeded scenario generator -> fork-per-scenario execution of the real Pandora "
                "objects under probes, knob/IO seams and simulated prange schedules -> monitors and reference "
                "models -> shrink -> fresh-interpreter replay",
            }
        ],
        "checks": checks,
        "not_applicable": [{"property_id": k, "reason": v} for k, v in sorted(na.items())],
        "notes": "See DESIGN.md. Exit codes: 0 held (KNOWN-FINDING lines for entries of known_findings.json), "
        "1 VIOLATION property=<id> replay=<path>, 3 HARNESS-ERROR.",
    }
    with open(os.path.join(V, "MANIFEST.json"), "w") as f:
        json.dump(m, f, indent=1)
    print("checks:", [c["property_id"] for c in checks])


if __name__ == "__main__":
    main()
