#!/bin/bash
# tools/try_mutant.sh <patch.diff> <Cxx> [more Cxx...]   -- applies the patch to a scratch worktree of /repo (outside /repo
# and /verif), runs the quick check(s) against it with VERIF_REPO, prints the exit codes, removes the worktree.
set -u
patch=$(readlink -f "$1"); shift
wt=$(mktemp -d /tmp/verif_mut_XXXXXX)
rmdir "$wt"
git -C /repo worktree add -q --detach "$wt" HEAD || exit 2
if ! git -C "$wt" apply "$patch"; then echo "PATCH-DOES-NOT-APPLY"; git -C /repo worktree remove --force "$wt"; exit 2; fi
cd "$(dirname "$0")/.."
for c in "$@"; do
  lc=$(echo "$c" | tr 'A-Z' 'a-z')
  VERIF_REPO="$wt" timeout 3000 /venv/bin/python "checks/${lc}.py" quick --no-evidence > "/tmp/verif_mut_$$.$c.log" 2>&1
  code=$?
  echo "MUTANT $(basename $(dirname $patch))/$(basename $patch) check=$c exit=$code"
  grep -E "^VIOLATION |^HARNESS-ERROR|VIOLATION-DETAIL" "/tmp/verif_mut_$$.$c.log" | cut -c1-400 | head -4
  rm -f "/tmp/verif_mut_$$.$c.log"
done
th=$(cd "$wt" && /venv/bin/python - <<PY
import sys; sys.path.insert(0,'/verif')
import os; os.environ['VERIF_REPO']='$wt'
from sim import boot
print(boot.tree_hash('$wt'))
PY
)
git -C /repo worktree remove --force "$wt"
rm -rf /verif/.cache/numba/${th}-* 2>/dev/null
rm -f /verif/replays/*-0-*.json.mut 2>/dev/null
exit 0
