#!/bin/bash
# re-validates every seeded patch against the current /repo HEAD: still applies, demo passes clean and fails patched
cd /verif
wt=$(mktemp -d /tmp/verif_reval_XXXXXX); rmdir $wt
git -C /repo worktree add -q --detach $wt HEAD
for d in seeded/*/; do
  id=$(basename $d)
  cp $d/demo.py $wt/_demo.py
  (cd $wt && PYTHONPATH=$wt timeout 900 /venv/bin/python _demo.py > /dev/null 2>&1); clean=$?
  if (cd $wt && git apply /verif/$d/patch.diff 2>/dev/null); then
    (cd $wt && PYTHONPATH=$wt timeout 900 /venv/bin/python _demo.py > /dev/null 2>&1); mut=$?
    (cd $wt && git checkout -q -- .)
  else
    mut="NOAPPLY"
  fi
  echo "REVALIDATE $id clean=$clean patched=$mut"
done
git -C /repo worktree remove --force $wt
