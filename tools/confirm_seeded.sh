#!/bin/bash
# tools/confirm_seeded.sh <dir with patch.diff demo.py notes.md> <seeded-id> <property> "<needs>"
# Confirms in a fresh scratch worktree: demo passes on the clean tree, fails with the patch, pinned suite still passes.
set -u
src=$(readlink -f "$1"); id="$2"; prop="$3"; needs="${4:-}"
wt=$(mktemp -d /tmp/verif_conf_XXXXXX); rmdir "$wt"
git -C /repo worktree add -q --detach "$wt" HEAD || exit 2
cp "$src/demo.py" "$wt/_demo.py"
cd "$wt"
PYTHONPATH="$wt" timeout 900 /venv/bin/python _demo.py > /tmp/conf_$$.clean.log 2>&1; clean=$?
if ! git apply "$src/patch.diff"; then echo "CONFIRM $id: patch does not apply"; cd /; git -C /repo worktree remove --force "$wt"; exit 2; fi
PYTHONPATH="$wt" timeout 900 /venv/bin/python _demo.py > /tmp/conf_$$.mut.log 2>&1; mut=$?
PYTHONPATH="$wt" timeout 3000 /venv/bin/python -m pytest -q -p no:cacheprovider --timeout=900 --continue-on-collection-errors --junitxml=/tmp/conf_$$.xml > /tmp/conf_$$.pytest.log 2>&1
suite=$(python3 - /tmp/conf_$$.xml <<'PY'
import json, sys, xml.etree.ElementTree as ET
base = set(json.load(open('/root/.vp/BASELINE.json'))['stable_pass'])
passed = set()
for tc in ET.parse(sys.argv[1]).getroot().iter('testcase'):
    if not any(ch.tag in ('failure', 'error', 'skipped') for ch in tc):
        passed.add(f"{tc.get('classname')}::{tc.get('name')}")
print(len(base - passed))
PY
)
cd /
git -C /repo worktree remove --force "$wt"
echo "CONFIRM $id: demo_clean_exit=$clean demo_patched_exit=$mut stable_tests_missing=$suite"
if [ "$clean" = "0" ] && [ "$mut" != "0" ] && [ "$suite" = "0" ]; then
  mkdir -p /verif/seeded/$id
  cp "$src/patch.diff" "$src/demo.py" /verif/seeded/$id/
  [ -f "$src/notes.md" ] && cp "$src/notes.md" /verif/seeded/$id/notes.md
  python3 - "$id" "$prop" "$needs" <<'PY'
import json, sys
id_, prop, needs = sys.argv[1:4]
json.dump({"id": id_, "property": prop, "needs_to_manifest": needs,
           "confirmed": "demo.py exits 0 on a clean scratch worktree of /repo HEAD and non-zero with patch.diff applied; "
                        "the pinned suite (BASELINE.json stable_pass, 351 tests) still passes with the patch "
                        "(tools/confirm_seeded.sh)",
           "checks_expected": [prop], "origin": "independent sub-agent given only the property text"},
          open(f"/verif/seeded/{id_}/meta.json", "w"), indent=1)
PY
  echo "KEPT $id"
else
  echo "REJECTED $id"; tail -5 /tmp/conf_$$.mut.log
fi
rm -f /tmp/conf_$$.*
