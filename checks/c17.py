"""
C17 - malformed inputs are refused up front; well-formed inputs never are.   DESIGN.md §5 (C17)
Seeded fault sequences on dataset pairs and input sections (well-formedness model, histories in one process) and a
complete single-fault sweep over the read side of the I/O seam for sampled command-line runs.
"""
import copy
import json
import os
import sys

import numpy as np

sys.path.insert(0, os.path.dirname(os.path.dirname(os.path.abspath(__file__))))
from sim import harness, programs, world, runner, files, ioseam  # noqa: E402

ATTRS = ["no_data_img", "valid_pixels", "no_data_mask", "crs", "transform"]

DS_BREAKING = (
    ["drop_im", "all_nan_image", "int_band_names", "off_grid_var", "drop_left_disparity", "no_band_disp_coord",
     "wrong_band_disp_names", "min_gt_max", "size_mismatch"] + ["drop_attr:" + a for a in ATTRS]
)
DS_PRESERVING = ["add_classif", "add_segm", "partly_nan", "extra_attr", "right_with_disparity", "add_msk",
                 "right_drop_disparity", "first_band_all_nan"]

IN_BREAKING = ["img_missing", "img_empty", "img_garbage", "img_directory", "img_truncated", "nodata_float",
               "mask_garbage", "mask_wrong_size", "classif_wrong_size", "segm_garbage", "disp_reversed",
               "grid_one_band", "grid_three_bands", "grid_wrong_size", "grid_min_gt_max", "right_grid_with_left_ints",
               "right_list", "left_disp_missing", "right_img_wrong_size", "right_grid_three_bands", "mask_empty_string",
               "classif_empty_string", "segm_empty_string", "grid_min_gt_max_on_nodata_value"] + \
              [k + "_string:" + v for k in ("mask", "classif", "segm") for v in ("none", "None", "null", "NaN")]
IN_PRESERVING = ["nodata_nan_str", "nodata_nan_float", "nodata_int", "extras_null", "classif_ok", "segm_ok",
                 "mask_ok", "grid_int_dtype"]
# pools the random stream draws from (frozen); the operators below are chosen afterwards from a hash of the op list,
# so that scenarios generated before they existed keep their content
GEN_DS_BREAKING, GEN_DS_PRESERVING = list(DS_BREAKING), list(DS_PRESERVING)
GEN_IN_BREAKING, GEN_IN_PRESERVING = list(IN_BREAKING), list(IN_PRESERVING)
NARROW = {"int8": (-100, 100), "int16": (-20000, 20000), "uint8": (0, 200), "uint16": (0, 60000)}
IN_PRESERVING += ["grid_narrow_wide:" + t for t in NARROW]          # legal wide interval in a narrow integer type
IN_BREAKING += ["grid_unsigned_min_gt_max:" + t for t in ("uint8", "uint16")]
DS_PRESERVING += ["disp_narrow_wide:" + t for t in NARROW]
DS_BREAKING += ["disp_unsigned_min_gt_max:" + t for t in ("uint8", "uint16")]
# fault-then-repair pairs: a path is named while nothing readable is there, later the same path holds a good file
REPAIR_PAIRS = {"mask_path_missing": "mask_path_repaired", "img_path_garbage": "img_path_repaired",
                "segm_path_missing": "segm_path_repaired"}


# ---------------------------------------------------------------------------------------------------------------
# dataset operators


def apply_ds_op(op, ds, w):
    """apply operator to {'left','right'} datasets in place; returns True if applied (False = not applicable)"""
    import xarray as xr

    name, side = op["name"], op.get("side", "left")
    d = ds[side]
    rows, cols = int(d.sizes.get("row", w["rows"])), int(d.sizes.get("col", w["cols"]))
    if name == "drop_im":
        if "im" not in d:
            return False
        ds[side] = d.drop_vars("im")
    elif name == "all_nan_image":
        if "im" not in d:
            return False
        d["im"].data[...] = np.nan
    elif name == "int_band_names":
        if "band_im" not in d.coords:
            return False
        ds[side] = d.assign_coords(band_im=list(range(d.sizes["band_im"])))
    elif name == "off_grid_var":
        var = op.get("var", "msk")
        if var in d:
            d = d.drop_vars(var)
        d[var] = xr.DataArray(np.zeros((rows + 1, cols), dtype=np.int16), dims=["row_x", "col"])
        ds[side] = d
    elif name.startswith("drop_attr:"):
        a = name.split(":")[1]
        if a not in d.attrs:
            return False
        del d.attrs[a]
    elif name == "drop_left_disparity":
        if "disparity" not in ds["left"]:
            return False
        ds["left"] = ds["left"].drop_vars("disparity")
    elif name == "no_band_disp_coord":
        if "disparity" not in d:
            return False
        data = d["disparity"].data
        d = d.drop_vars("disparity")
        if "band_disp" in d.coords:
            d = d.drop_vars("band_disp")
        d["disparity"] = xr.DataArray(data, dims=["band_disp", "row", "col"])
        ds[side] = d
    elif name == "wrong_band_disp_names":
        if "disparity" not in d:
            return False
        data = d["disparity"].data
        d = d.drop_vars("disparity")
        if "band_disp" in d.coords:
            d = d.drop_vars("band_disp")
        d.coords["band_disp"] = ["lo", "hi"]
        d["disparity"] = xr.DataArray(data, dims=["band_disp", "row", "col"])
        ds[side] = d
    elif name == "min_gt_max":
        if "disparity" not in d or "band_disp" not in d.coords or list(d.coords["band_disp"].data) != ["min", "max"]:
            return False
        data = d["disparity"].data.astype(np.float32)
        r, c = op.get("pixel", [0, 0])
        r, c = r % rows, c % cols
        data[0, r, c] = data[1, r, c] + 1
        d["disparity"] = xr.DataArray(data, dims=["band_disp", "row", "col"])
    elif name.startswith("disp_narrow_wide:") or name.startswith("disp_unsigned_min_gt_max:"):
        if "disparity" not in d or "band_disp" not in d.coords or list(d.coords["band_disp"].data) != ["min", "max"]:
            return False
        t = name.split(":")[1]
        lo, hi = NARROW[t]
        data = np.stack([np.full((rows, cols), lo), np.full((rows, cols), hi)]).astype(t)
        if name.startswith("disp_unsigned"):
            r, c = op.get("pixel", [0, 0])
            data[0, r % rows, c % cols], data[1, r % rows, c % cols] = 5, 2
        d["disparity"] = xr.DataArray(data, dims=["band_disp", "row", "col"])
    elif name == "size_mismatch":
        if "im" not in ds["right"] or "im" not in ds["left"]:
            return False
        w2 = copy.deepcopy(w)
        w2["cols"] = cols + 1
        w2["mask_left"] = w2["mask_right"] = None
        ds["right"] = world.build_side(w2, "right")
    elif name == "add_classif":
        if "classif" in d:
            return False
        d.coords["band_classif"] = ["a", "b"]
        d["classif"] = xr.DataArray(np.zeros((2, rows, cols), dtype=np.int16), dims=["band_classif", "row", "col"])
    elif name == "add_segm":
        d["segm"] = xr.DataArray(np.ones((rows, cols), dtype=np.int16), dims=["row", "col"])
    elif name == "add_msk":
        if "msk" in d:
            return False
        d["msk"] = xr.DataArray(np.zeros((rows, cols), dtype=np.int16), dims=["row", "col"])
    elif name == "partly_nan":
        if "im" not in d or np.isnan(d["im"].data).all():
            return False
        flat = d["im"].data.reshape(-1)
        flat[: max(1, flat.size // 3)] = np.nan
        if np.isnan(d["im"].data).all():
            return False
    elif name == "first_band_all_nan":
        # multiband image whose first band only is NaN: the image is not entirely NaN
        if "im" not in d or d["im"].ndim != 3 or d["im"].shape[0] < 2 or np.isnan(d["im"].data[1:]).all():
            return False
        d["im"].data[0] = np.nan
    elif name == "extra_attr":
        d.attrs["verif_extra"] = 42
    elif name == "right_with_disparity":
        r = ds["right"]
        if "disparity" in r:
            return False
        r.coords["band_disp"] = ["min", "max"]
        r["disparity"] = xr.DataArray(np.array([np.full((r.sizes["row"], r.sizes["col"]), -2),
                                                np.full((r.sizes["row"], r.sizes["col"]), 2)]),
                                      dims=["band_disp", "row", "col"])
    elif name == "right_drop_disparity":
        if "disparity" not in ds["right"]:
            return False
        ds["right"] = ds["right"].drop_vars("disparity")
    else:
        raise ValueError(name)
    return True


# ---------------------------------------------------------------------------------------------------------------
# input-section operators (on files)


def apply_in_op(op, inp, w, tmp, uid):
    """mutates the input section dict; returns True if applied"""
    name, side = op["name"], op.get("side", "left")
    rows, cols = w["rows"], w["cols"]
    p = lambda n: os.path.join(tmp, f"{uid}_{n}")  # noqa: E731
    if name == "img_missing":
        inp[side]["img"] = p("does_not_exist.tif")
    elif name == "img_empty":
        open(p("empty.tif"), "wb").close()
        inp[side]["img"] = p("empty.tif")
    elif name == "img_garbage":
        with open(p("garbage.tif"), "wb") as f:
            f.write(b"garbage, not a tiff " * 40)
        inp[side]["img"] = p("garbage.tif")
    elif name == "img_directory":
        os.makedirs(p("dir.tif"), exist_ok=True)
        inp[side]["img"] = p("dir.tif")
    elif name == "img_truncated":
        with open(inp.get("_orig_img", {}).get(side, inp[side]["img"]), "rb") as f:
            head = f.read(60)
        with open(p("trunc.tif"), "wb") as f:
            f.write(head)
        inp[side]["img"] = p("trunc.tif")
    elif name == "nodata_float":
        inp[side]["nodata"] = 3.5
    elif name == "mask_garbage":
        with open(p("mask_garbage.tif"), "wb") as f:
            f.write(b"\x00\x01garbage" * 30)
        inp[side]["mask"] = p("mask_garbage.tif")
    elif name == "segm_garbage":
        with open(p("segm_garbage.tif"), "wb") as f:
            f.write(b"garbage" * 30)
        inp[side]["segm"] = p("segm_garbage.tif")
    elif name == "mask_wrong_size":
        files.write_raster(p("mask_ws.tif"), np.zeros((rows + 2, cols), dtype=np.uint8))
        inp[side]["mask"] = p("mask_ws.tif")
    elif name == "classif_wrong_size":
        files.write_raster(p("classif_ws.tif"), np.zeros((2, rows, cols + 3), dtype=np.int16), descriptions=["a", "b"])
        inp[side]["classif"] = p("classif_ws.tif")
    elif name == "disp_reversed":
        if not isinstance(inp["left"].get("disp"), list):
            return False
        a, b = w["disp"]["min"], w["disp"]["max"]  # from the world: applying the operator twice must not undo it
        inp["left"]["disp"] = [b + 1, a]
    elif name in ("grid_one_band", "grid_three_bands", "grid_wrong_size", "grid_min_gt_max"):
        lo = np.full((rows, cols), -2, dtype=np.float32)
        hi = np.full((rows, cols), 2, dtype=np.float32)
        if name == "grid_one_band":
            data = lo[None]
        elif name == "grid_three_bands":
            data = np.stack([lo, hi, hi])
        elif name == "grid_wrong_size":
            data = np.stack([lo, hi])[:, :, : cols - 1]
        else:
            lo = lo.copy()
            r, c = op.get("pixel", [1, 1])
            lo[r % rows, c % cols] = 3
            data = np.stack([lo, hi])
        files.write_raster(p(name + ".tif"), data, dtype="float32")
        inp["left"]["disp"] = p(name + ".tif")
        if isinstance(inp["right"].get("disp"), list):
            inp["right"]["disp"] = None
    elif name == "grid_min_gt_max_on_nodata_value":
        # the file declares a nodata value, and the pixel where min > max happens to carry it
        lo = np.full((rows, cols), -2, dtype=np.float32)
        hi = np.full((rows, cols), 2, dtype=np.float32)
        r, c = op.get("pixel", [1, 1])
        lo[r % rows, c % cols] = 0
        hi[r % rows, c % cols] = -2
        files.write_raster(p("grid_nd.tif"), np.stack([lo, hi]), dtype="float32", nodata=0)
        inp["left"]["disp"] = p("grid_nd.tif")
        if isinstance(inp["right"].get("disp"), list):
            inp["right"]["disp"] = None
    elif name == "right_grid_with_left_ints":
        if not isinstance(inp["left"].get("disp"), list):
            return False
        files.write_raster(p("rgrid.tif"), np.stack([np.full((rows, cols), -2.0), np.full((rows, cols), 2.0)]),
                           dtype="float32")
        inp["right"]["disp"] = p("rgrid.tif")
    elif name == "right_list":
        inp["right"]["disp"] = [-2, 2]
    elif "_string:" in name:
        # a word that reads like "nothing" is not the documented null (JSON null / absent key) and names no raster
        inp[side][name.split("_")[0]] = name.split(":", 1)[1]
    elif name in ("mask_empty_string", "classif_empty_string", "segm_empty_string"):
        inp[side][name.split("_")[0]] = ""  # not a readable raster, and not the documented null either
    elif name == "right_img_wrong_size":
        bands = w["bands"]
        files.write_raster(p("right_ws.tif"), np.ones((bands, rows, cols + 2), dtype=np.float32),
                           descriptions=(w.get("band_names") or world.BAND_NAMES[:bands]) if bands > 1 else None)
        inp["right"]["img"] = p("right_ws.tif")
        inp["right"].pop("mask", None)
    elif name == "right_grid_three_bands":
        if not isinstance(inp["left"].get("disp"), str):
            return False
        lo = np.full((rows, cols), -2, dtype=np.float32)
        hi = np.full((rows, cols), 2, dtype=np.float32)
        files.write_raster(p("rgrid3.tif"), np.stack([lo, hi, hi]), dtype="float32")
        inp["right"]["disp"] = p("rgrid3.tif")
    elif name == "left_disp_missing":
        inp["left"].pop("disp", None)
    elif name == "mask_path_missing":
        inp[side]["mask"] = os.path.join(tmp, f"shared_mask_{side}.tif")
        if os.path.exists(inp[side]["mask"]):
            os.remove(inp[side]["mask"])
    elif name == "mask_path_repaired":
        files.write_raster(os.path.join(tmp, f"shared_mask_{side}.tif"), np.zeros((rows, cols), dtype=np.uint8))
        inp[side]["mask"] = os.path.join(tmp, f"shared_mask_{side}.tif")
    elif name == "segm_path_missing":
        inp[side]["segm"] = os.path.join(tmp, f"shared_segm_{side}.tif")
        if os.path.exists(inp[side]["segm"]):
            os.remove(inp[side]["segm"])
    elif name == "segm_path_repaired":
        files.write_raster(os.path.join(tmp, f"shared_segm_{side}.tif"), np.ones((rows, cols), dtype=np.int16))
        inp[side]["segm"] = os.path.join(tmp, f"shared_segm_{side}.tif")
    elif name == "img_path_garbage":
        with open(os.path.join(tmp, f"shared_img_{side}.tif"), "wb") as f:
            f.write(b"not yet an image " * 20)
        inp[side]["img"] = os.path.join(tmp, f"shared_img_{side}.tif")
    elif name == "img_path_repaired":
        import shutil

        shutil.copyfile(inp.get("_orig_img", {}).get(side, inp[side]["img"]), os.path.join(tmp, f"shared_img_{side}.tif"))
        inp[side]["img"] = os.path.join(tmp, f"shared_img_{side}.tif")
    elif name.startswith("grid_narrow_wide:") or name.startswith("grid_unsigned_min_gt_max:"):
        t = name.split(":")[1]
        lo, hi = NARROW[t]
        data = np.stack([np.full((rows, cols), lo), np.full((rows, cols), hi)]).astype(t)
        if name.startswith("grid_unsigned"):
            r, c = op.get("pixel", [1, 1])
            data[0, r % rows, c % cols], data[1, r % rows, c % cols] = 5, 2
        elif not isinstance(inp["left"].get("disp"), str):
            return False
        files.write_raster(p("grid_" + t + ".tif"), data, dtype=t)
        inp["left"]["disp"] = p("grid_" + t + ".tif")
        if isinstance(inp["right"].get("disp"), list):
            inp["right"]["disp"] = None
    elif name == "grid_int_dtype":
        # a well-formed 2-band grid stored with an integer sample type
        if not isinstance(inp["left"].get("disp"), str):
            return False
        files.write_raster(p("grid_int.tif"), np.stack([np.full((rows, cols), -2), np.full((rows, cols), 2)]),
                           dtype="int16")
        inp["left"]["disp"] = p("grid_int.tif")
    elif name == "nodata_nan_str":
        inp[side]["nodata"] = "NaN"
    elif name == "nodata_nan_float":
        inp[side]["nodata"] = float("nan")
    elif name == "nodata_int":
        inp[side]["nodata"] = op.get("value", 0)
    elif name == "extras_null":
        for k in ("mask", "classif", "segm"):
            inp[side][k] = None
    elif name == "classif_ok":
        files.write_raster(p("classif.tif"), np.zeros((2, rows, cols), dtype=np.int16), descriptions=["a", "b"])
        inp[side]["classif"] = p("classif.tif")
    elif name == "segm_ok":
        files.write_raster(p("segm.tif"), np.ones((rows, cols), dtype=np.int16))
        inp[side]["segm"] = p("segm.tif")
    elif name == "mask_ok":
        files.write_raster(p("mask_ok.tif"), np.zeros((rows, cols), dtype=np.uint8))
        inp[side]["mask"] = p("mask_ok.tif")
    else:
        raise ValueError(name)
    return True


class C17:
    prop = "C17"
    level = "fault_enumeration"
    budgets = {"quick": 2400, "thorough": 60000}
    scenario_timeout = 900

    def warm_extra(self):
        pass

    # -----------------------------------------------------------------------------------------------------------
    def gen_ops(self, rnd, breaking, preserving, p_clean):
        n = rnd.randint(1, 4)
        ops = []
        clean = rnd.random() < p_clean
        for i in range(n):
            if clean or (i > 0 and rnd.random() < 0.5):
                name = rnd.choice(preserving)
            else:
                name = rnd.choice(breaking)
            op = {"name": name, "side": rnd.choice(["left", "right"]),
                  "pixel": rnd.choice([[0, 0], [-1, -1], [0, -1], [rnd.randint(0, 30), rnd.randint(0, 30)],
                                       [rnd.randint(0, 30), rnd.randint(0, 30)]])}
            if name == "off_grid_var":
                op["var"] = rnd.choice(["msk", "classif", "segm"])
            if name == "nodata_int":
                op["value"] = rnd.choice([0, -1, 255, -9999])
            ops.append(op)
            if name in ("mask_wrong_size", "classif_wrong_size", "mask_garbage", "segm_garbage") and rnd.random() < 0.5:
                # the same kind of raster, well-formed, on the other side
                good = {"mask_wrong_size": "mask_ok", "classif_wrong_size": "classif_ok", "mask_garbage": "mask_ok",
                        "segm_garbage": "segm_ok"}[name]
                ops.append({"name": good, "side": "left" if op["side"] == "right" else "right", "pixel": [0, 0]})
        return ops

    @staticmethod
    def late_ops(ops, kind):
        """operators added after the pools were frozen: substituted from a hash of the op list (no draw from rnd)"""
        import hashlib

        h = hashlib.sha256(json.dumps([kind, ops], sort_keys=True).encode()).digest()
        types = sorted(NARROW)
        for i, op in enumerate(ops):
            b = h[i % 32]
            if kind == "in" and op["name"] == "grid_int_dtype" and b % 2 == 0:
                op["name"] = "grid_narrow_wide:" + types[(b // 2) % 4]
            elif kind == "in" and op["name"] == "grid_min_gt_max" and b % 3 == 0:
                op["name"] = "grid_unsigned_min_gt_max:" + ("uint8", "uint16")[(b // 3) % 2]
            elif kind == "ds" and op["name"] == "min_gt_max" and b % 3 == 0:
                op["name"] = "disp_unsigned_min_gt_max:" + ("uint8", "uint16")[(b // 3) % 2]
            elif kind == "ds" and op["name"] in ("extra_attr", "add_segm") and b % 3 == 0:
                op["name"] = "disp_narrow_wide:" + types[(b // 3) % 4]
        return ops

    def generate(self, rnd, index, tier):
        r = rnd.random()
        w = world.gen_world(rnd, rows=rnd.randint(6, 12), cols=rnd.randint(8, 14), georef=rnd.random() < 0.3)
        if r < 0.5:
            return {"harness": "datasets", "world": w, "ops": self.late_ops(self.gen_ops(rnd, GEN_DS_BREAKING, GEN_DS_PRESERVING, 0.35), "ds")}
        if r < 0.92:
            hist = [self.late_ops(self.gen_ops(rnd, GEN_IN_BREAKING, GEN_IN_PRESERVING, 0.4), "in") for _ in range(rnd.randint(2, 8))]
            worlds = [w]
            # alternate disparity forms across the history: integer pair / grid + null / grid + grid
            if rnd.random() < 0.3:
                # a fault that is repaired later in the same process, at the same path
                fault = rnd.choice(sorted(REPAIR_PAIRS))
                side = rnd.choice(["left", "right"])
                i = rnd.randrange(len(hist))
                hist.insert(i, [{"name": fault, "side": side}])
                j = rnd.randint(i + 1, len(hist))
                hist.insert(j, [{"name": REPAIR_PAIRS[fault], "side": side}])
            forms = [rnd.choice(["ints", "grid_null", "grid_grid"]) for _ in hist]
            return {"harness": "input-history", "world": w, "history": hist, "forms": forms}
        # command-line sweep
        kinds = programs.gen_legal_kinds(rnd, max_cv=1, max_dm=2, allow=["matching_cost", "disparity", "filter",
                                                                         "refinement", "validation",
                                                                         "cost_volume_confidence"])
        w["bands"] = 1 if rnd.random() < 0.8 else w["bands"]
        if w["disp"]["kind"] == "grid" and not w.get("disp_right"):
            kinds = [k for k in kinds if k != "validation"]
        ov = {"matching_cost": lambda r_, ww: programs.p_matching_cost(r_, ww, max_window=3, subpix=(1,))}
        prog = programs.build_program(rnd, w, kinds, overrides=ov)
        extras = [x for x in ("classif", "segm") if rnd.random() < 0.3]
        return {"harness": "cli-sweep", "world": w, "program": prog, "extras": extras,
                "fault": rnd.choice(["EIO", "EIO", "RasterioIOError", "EACCES", "garbage"]),
                "pairs": [[rnd.randint(0, 12), rnd.randint(0, 12)] for _ in range(2)]}

    # -----------------------------------------------------------------------------------------------------------
    def execute(self, sc):
        return getattr(self, "exec_" + sc["harness"].replace("-", "_"))(sc)

    def exec_datasets(self, sc):
        from pandora import check_configuration as cc

        w = sc["world"]
        ds = {"left": world.build_side(w, "left"), "right": world.build_side(w, "right")}
        applied, broken = [], False
        # operators that rebuild a dataset go first, preserving ones next, breaking ones last, so that the model's
        # verdict ('malformed iff a breaking operator was applied') describes the final datasets
        order = sorted(sc["ops"], key=lambda o: (o["name"] != "size_mismatch", o["name"] in DS_BREAKING))
        for op in order:
            if apply_ds_op(op, ds, w):
                applied.append(op["name"])
                broken = broken or (op["name"] in DS_BREAKING)
        viol = []
        verdicts = []
        for rep in range(2):  # twice: verdict independent of the earlier call
            try:
                cc.check_datasets(ds["left"], ds["right"])
                verdicts.append("accept")
            except Exception as e:  # noqa
                verdicts.append("reject:" + type(e).__name__)
        exp = "reject" if broken else "accept"
        for v in verdicts:
            if v.split(":")[0] != exp:
                viol.append({"class": "C17.check_datasets_verdict", "sig": {"expected": exp, "got": v,
                                                                            "ops": sorted(set(applied))}})
                break
        if verdicts[0] != verdicts[1]:
            viol.append({"class": "C17.verdict_depends_on_history", "sig": {"api": "check_datasets"}})
        return {"violations": viol, "cov": {exp: 1, "datasets_cases": 1},
                "shape": harness.jdump(["ds", sorted(applied)]), "digest": harness.jdump(verdicts),
                "faults": {("ds:" + a): 1 for a in applied if a in DS_BREAKING}, "steps": 2,
                "probes": {"combined_violations": int(sum(a in DS_BREAKING for a in applied) >= 2),
                           "well_formed_with_extras": int(not broken and bool(applied))}}

    def exec_input_history(self, sc):
        from pandora import check_configuration as cc

        w0 = sc["world"]
        tmp = files.scratch_dir("verif_c17_")
        viol, cov, faults, shapes = [], {}, {}, []
        try:
            for i, (ops, form) in enumerate(zip(sc["history"], sc["forms"])):
                w = copy.deepcopy(w0)
                if form == "ints":
                    w["disp"] = {"kind": "scalar", "min": -2, "max": 2}
                    w["disp_right"] = None
                else:
                    w["disp"] = {"kind": "grid", "lo": -3, "hi": 2, "seed": 5 + i}
                    w["disp_right"] = {"kind": "grid", "lo": -2, "hi": 3, "seed": 9 + i} if form == "grid_grid" else None
                d = os.path.join(tmp, f"w{i}")
                os.makedirs(d)
                inp = files.write_world(w, d)
                applied, broken = [], False
                inp["_orig_img"] = {s_: inp[s_]["img"] for s_ in ("left", "right")}
                for op in sorted(ops, key=lambda o: o["name"] in IN_BREAKING):
                    if apply_in_op(op, inp, w, tmp, f"h{i}"):
                        applied.append(op["name"])
                        broken = broken or op["name"] in IN_BREAKING or op["name"] in REPAIR_PAIRS
                inp.pop("_orig_img", None)
                try:
                    cc.check_input_section({"input": copy.deepcopy(inp)})
                    got = "accept"
                except Exception as e:  # noqa
                    got = "reject:" + type(e).__name__
                exp = "reject" if broken else "accept"
                cov[exp] = cov.get(exp, 0) + 1
                cov["input_section_cases"] = cov.get("input_section_cases", 0) + 1
                for a in applied:
                    if a in IN_BREAKING or a in REPAIR_PAIRS:
                        faults["in:" + a] = faults.get("in:" + a, 0) + 1
                shapes.append(harness.jdump(["in", form, sorted(applied)]))
                if got.split(":")[0] != exp:
                    viol.append({"class": "C17.check_input_section_verdict",
                                 "sig": {"expected": exp, "got": got, "ops": sorted(set(applied)), "form": form},
                                 "index": i, "earlier_forms": sc["forms"][:i]})
            return {"violations": viol, "cov": cov, "shapes": shapes, "digest": harness.jdump(sc["forms"]),
                    "faults": faults, "steps": len(sc["history"]), "evaluations": len(sc["history"]),
                    "probes": {"forms_alternated": int(len(set(sc["forms"])) >= 2),
                               "fault_then_repair_at_same_path": int(any(o["name"] in REPAIR_PAIRS.values()
                                                                         for ops in sc["history"] for o in ops))}}
        finally:
            files.cleanup(tmp)

    def exec_cli_sweep(self, sc):
        w = sc["world"]
        tmp = files.scratch_dir("verif_c17_")
        viol, cov, faults = [], {}, {}
        try:
            inp = files.write_world(w, tmp)
            for j_, x in enumerate(sc.get("extras", [])):
                apply_in_op({"name": x + "_ok", "side": "left" if (sc.get("index", 0) + j_) % 2 == 0 else "right"},
                            inp, w, tmp, f"x{j_}")
            cfg = {"input": inp, **programs.to_cfg(sc["program"])}
            cfg_path = os.path.join(tmp, "cfg.json")
            files.write_json(cfg_path, cfg)

            def one(faults_, tag):
                out = os.path.join(tmp, "out_" + tag)
                seam = ioseam.IOSeam(faults_)
                res = ioseam.run_main(cfg_path, out, seam=seam, capture=False)
                rec = res["rec"]
                started = rec is not None and any(e["phase"] in ("run", "prepare") for e in rec.events)
                return res, seam, started

            base, seam0, _ = one([], "base")
            if not base["ok"]:
                sig = runner.exc_sig(base["exc"])
                if sig["where"].startswith(("check_configuration.py", "img_tools.py")):
                    viol.append({"class": "C17.well_formed_cli_refused", "sig": sig, "msg": str(base["exc"])[:200]})
                else:
                    cov["skipped:cli:" + sig["exception"] + "@" + sig["where"]] = 1
                return {"violations": viol, "cov": cov, "shape": harness.jdump(["cli", "base-failed"]),
                        "evaluations": 1 if viol else 0}
            nreads = seam0.counts["read"]
            cov["cli_read_opens"] = nreads
            cov["cli_runs"] = 1
            kind = sc["fault"]
            plans = [[{"kind": "read", "call": k, "fault": kind}] for k in range(nreads)]
            for a, b in sc.get("pairs", []):
                a, b = a % nreads, b % nreads
                if a != b:
                    plans.append([{"kind": "read", "call": min(a, b), "fault": "RasterioIOError"},
                                  {"kind": "read", "call": max(a, b), "fault": kind}])
            for i, plan in enumerate(plans):
                if kind == "garbage":
                    # the fault destroys a file: rewrite the inputs before each run
                    inp2 = files.write_world(w, tmp)
                res, seam, started = one(plan, f"f{i}")
                cov["cli_runs"] += 1
                for f in seam.fired:
                    faults["io:" + f["fault"]] = faults.get("io:" + f["fault"], 0) + 1
                if not seam.fired:
                    continue
                if res["ok"] or started:
                    viol.append({"class": "C17.read_fault_not_refused_up_front",
                                 "sig": {"fault": kind, "completed": bool(res["ok"]), "matching_started": bool(started)},
                                 "call": plan[0]["call"], "path": seam.fired[0]["path"], "nreads": nreads})
                    break
            return {"violations": viol, "cov": cov, "shape": harness.jdump(["cli", nreads, kind, len(sc["program"])]),
                    "digest": harness.jdump([c["path"] for c in seam0.calls]), "faults": faults,
                    "steps": sum(1 for _ in plans) * nreads, "evaluations": len(plans) + 1,
                    "probes": {"cli_sweep_complete_over_read_opens": 1, "grid_inputs_in_cli": int(w["disp"]["kind"] == "grid"),
                               "mask_files_in_cli": int(bool(w.get("mask_left") or w.get("mask_right")))}}
        finally:
            files.cleanup(tmp)

    def simplify(self, sc):
        if sc["harness"] == "datasets":
            for i in range(len(sc["ops"])):
                c = copy.deepcopy(sc)
                del c["ops"][i]
                if c["ops"]:
                    yield c
        elif sc["harness"] == "input-history":
            for i in range(len(sc["history"]) - 1, -1, -1):
                c = copy.deepcopy(sc)
                del c["history"][i]
                del c["forms"][i]
                if c["history"]:
                    yield c
            for i, ops in enumerate(sc["history"]):
                for j in range(len(ops)):
                    c = copy.deepcopy(sc)
                    del c["history"][i][j]
                    yield c
        else:
            for i in range(len(sc["program"]) - 1, 0, -1):
                c = copy.deepcopy(sc)
                del c["program"][i]
                if programs.dfa_accepts([n for n, _ in c["program"]]):
                    yield c

    def describe(self):
        return {
            "rule": "three scenario families: (datasets) 1..4 fault operators, breaking or preserving, applied in seeded "
            "order to a well-formed dataset pair, check_datasets called twice; (input-history) 2..8 check_input_section "
            "calls in one process on sections built from files with 1..4 operators each, disparity forms alternating; "
            "(cli-sweep) pandora.main on a well-formed scenario, then once per read-open index k with a fault injected "
            "at the k-th read-open (complete over k), plus two 2-fault plans. evaluations = verdicts compared; distinct "
            "= distinct (family, operator set / form / read-open count) tuples.",
            "assumptions": [
                "only operators whose classification is unambiguous under the statement are generated",
                "refusal = any exception; 'before any matching starts' = no matching_cost prepare/run event in the "
                "machine's event log",
                "I/O faults are injected at call granularity through the rasterio_open wrapper",
            ],
            "extra_coverage": {"fault_kinds": ["EIO", "EACCES", "RasterioIOError", "file replaced by garbage"],
                               "dataset_operators": DS_BREAKING + DS_PRESERVING,
                               "input_operators": IN_BREAKING + IN_PRESERVING},
        }


if __name__ == "__main__":
    sys.exit(harness.main(C17(), os.path.abspath(__file__)))
