"""
C15 - a multiscale step really processes num_scales scales, coarse to fine.   DESIGN.md §5 (C15)
An ordering / exactly-once property over the executed-step history, which no product comparison sees.
"""
import copy
import hashlib
import math
import os
import sys

import numpy as np

sys.path.insert(0, os.path.dirname(os.path.dirname(os.path.abspath(__file__))))
from sim import harness, pipeline, runner, programs, probes, world, knobs  # noqa: E402
from sim.pipeline import INVALID_BITS  # noqa: E402


class MultiscaleMonitor:
    """checks the per-pixel intervals of each finer level against the coarser map snapshot"""

    def __init__(self, ctx, rec):
        self.ctx = ctx
        self.rec = rec
        self.pending = None

    def v(self, cls, ev, side, **kw):
        self.rec.violation("C15." + cls, sig=kw.pop("sig", {}), step=ev["name"], side=side, seq=ev["seq"], **kw)

    def after(self, ev, pre, post, machine):
        if ev["phase"] == "run" and ev["kind"] == "multiscale":
            sides = ["left"] + (["right"] if machine.right_disp_map == "cross_checking_accurate" else [])
            self.pending = {
                "coarse": {s: pre[s]["disp"] for s in sides},
                "params": self.ctx.cfg["pipeline"][ev["name"]],
                "coarse_scale": ev["scale"],
                "coarse_shape": ev["shape"],
            }
            return
        if ev["phase"] == "prepare" and self.pending is None and (machine.num_scales or 1) > 1 \
                and ev["scale"] == machine.num_scales - 1 and post is not None:
            # coarsest level searches the user interval divided by scale_factor**(num_scales-1)
            n, sf = machine.num_scales, machine.scale_factor
            ulo, uhi = world.disp_bounds(self.ctx.world, "left")
            for side in ["left"] + (["right"] if machine.right_disp_map == "cross_checking_accurate" else []):
                cv = post[side]["cv"]
                if cv is None or "disp" not in cv:
                    continue
                lo, hi = (ulo, uhi) if side == "left" else (-uhi, -ulo)
                e_lo, e_hi = lo / sf ** (n - 1), hi / sf ** (n - 1)
                g_lo, g_hi = float(cv["disp"][0]), float(cv["disp"][-1])
                if abs(g_lo - e_lo) >= 1 or abs(g_hi - e_hi) >= 1:
                    self.v("coarsest_interval", ev, side, got=[g_lo, g_hi], expected=[e_lo, e_hi], sig={})
                else:
                    self.ctx.bump("coarsest_interval_checked")
            return
        if ev["phase"] == "prepare" and self.pending is not None:
            pend, self.pending = self.pending, None
            for side, coarse in pend["coarse"].items():
                if coarse is None:
                    continue
                if side == "left":
                    gmin, gmax = machine.disp_min, machine.disp_max
                else:
                    gmin, gmax = machine.right_disp_min, machine.right_disp_max
                self.check_level(ev, side, coarse, pend, np.asarray(gmin, dtype=np.float64),
                                 np.asarray(gmax, dtype=np.float64), machine)

    def check_level(self, ev, side, coarse, pend, gmin, gmax, machine):
        ctx = self.ctx
        sf = int(pend["params"]["scale_factor"])
        marge = int(pend["params"]["marge"])
        nscales = int(pend["params"]["num_scales"])
        level = pend["coarse_scale"] - 1  # the finer level now being prepared (0 = full resolution)
        w = self.ctx.world
        ulo, uhi = world.disp_bounds(w, "left")
        if side == "right":
            ulo, uhi = -uhi, -ulo
        exact_lo, exact_hi = ulo / sf ** level, uhi / sf ** level
        rows, cols = machine.left_img.sizes["row"], machine.left_img.sizes["col"]
        if gmin.ndim != 2 or gmin.shape[0] < rows or gmin.shape[1] < cols:
            self.v("finer_level_grids_do_not_cover_image", ev, side, grid=list(gmin.shape), image=[rows, cols])
            return
        dmap = coarse["disparity_map"].astype(np.float64)
        mask = coarse["validity_mask"].astype(np.int64)
        ws = int(coarse["attrs"]["window_size"])
        off = (ws - 1) // 2
        R, C = dmap.shape
        valid = ((mask & INVALID_BITS) == 0) & np.isfinite(dmap)
        dv = np.where(valid, dmap, np.nan)
        truncated_reported = False
        for r in range(off, rows - off):
            for c in range(off, cols - off):
                # pixels of the finer level nearer to the edge than the matching window are never searched
                lo, hi = gmin[r, c], gmax[r, c]
                ok = False
                for RR in range(max(0, r // sf - 1), min(R - 1, r // sf + 1) + 1):
                    for CC in range(max(0, c // sf - 1), min(C - 1, c // sf + 1) + 1):
                        border = RR < off or CC < off or RR > R - 1 - off or CC > C - 1 - off
                        if border or not valid[RR, CC]:
                            if abs(lo - exact_lo) < sf and abs(hi - exact_hi) < sf:
                                ok = True
                                if lo != exact_lo or hi != exact_hi:
                                    ctx.probe("level_user_interval_truncated")
                                    if level == 0 and not truncated_reported:
                                        # at full resolution the level's user interval is the user's integer interval
                                        # itself: nothing fractional to argue about
                                        truncated_reported = True
                                        self.v("user_interval_truncated_at_full_resolution", ev, side, pixel=[r, c],
                                               got=[lo, hi], user=[exact_lo, exact_hi], sig={"level": 0})
                        else:
                            win = dv[RR - off:RR + off + 1, CC - off:CC + off + 1]
                            e_lo = sf * (np.nanmin(win) - marge)
                            e_hi = sf * (np.nanmax(win) + marge)
                            if abs(lo - e_lo) < 1e-4 and abs(hi - e_hi) < 1e-4:
                                ok = True
                        if ok:
                            break
                    if ok:
                        break
                if not ok:
                    self.v("finer_interval_not_from_coarse_neighbourhood", ev, side, pixel=[r, c], got=[lo, hi],
                           level=level, sig={"sf": sf})
                    return
        ctx.bump("finer_levels_checked")
        ctx.probe("coarse_invalid_pixel_seen", int((~valid[off:R - off, off:C - off]).any()) if R > 2 * off else 0)


class C15:
    prop = "C15"
    level = "exploration"
    budgets = {"quick": 450, "thorough": 12000}
    warm_refinement = True
    scenario_timeout = 600

    def warm_extra(self):
        # multiscale pyramids with masks (interpolate_nodata_sgm) for mono and multiband images
        import random

        rnd = random.Random(7)
        for bands in (1, 2):
            sc = self.generate(rnd, 0, "quick", force=dict(bands=bands, masks=True))
            try:
                pipeline.execute(sc, [], snapshots=False)
            except Exception:
                pass

    def generate(self, rnd, index, tier, force=None):
        force = force or {}
        n = rnd.choice([2, 2, 3, 3, 4])
        sf = rnd.choice([2, 2, 2, 3])
        if sf == 3 and n > 3:
            n = 3
        base = rnd.randint(6, 9)
        factor = sf ** (n - 1)
        rows = base * factor + rnd.randint(0, factor)
        cols = (base + rnd.randint(0, 3)) * factor + rnd.randint(0, factor)
        bands = force.get("bands", 1 if rnd.random() < 0.7 else rnd.choice([2, 3]))
        w = world.gen_world(rnd, rows=rows, cols=cols, bands=bands, masks=force.get("masks", rnd.random() < 0.5),
                            disp="scalar", georef=False)
        umax = rnd.choice([factor, 2 * factor, 2 * factor + 1, 5, 7])
        lo = -rnd.randint(0, umax)
        w["disp"]["min"], w["disp"]["max"] = lo, lo + rnd.randint(1, umax)
        kinds = ["matching_cost"]
        for _ in range(rnd.randint(0, 2)):
            kinds.append(rnd.choice(["cost_volume_confidence", "optimization"] + (["aggregation"] if bands == 1 else [])))
        kinds.append("disparity")
        for _ in range(rnd.randint(0, 2)):
            kinds.append(rnd.choice(["filter", "refinement", "validation"]))
        kinds.append("multiscale")
        for _ in range(rnd.randint(0, 2)):
            kinds.append(rnd.choice(["filter", "refinement", "validation"]))
        ov = {
            "matching_cost": lambda r, ww: programs.p_matching_cost(r, ww, max_window=5,
                                                                     subpix=(1,) if ww["bands"] > 1 else (1, 1, 2)),
            "multiscale": lambda r, ww: {"multiscale_method": "fixed_zoom_pyramid", "num_scales": n,
                                          "scale_factor": sf, "marge": r.choice([0, 1, 1, 2, 3])},
            "cost_volume_confidence": lambda r, ww: programs.p_confidence(r, ww, methods=["ambiguity", "std_intensity"]),
            "validation": lambda r, ww: programs.p_validation(r, ww, fill=r.random() < 0.3),
        }
        prog = programs.build_program(rnd, w, kinds, overrides=ov)
        ms = [p for nme, p in prog if programs.kind_of(nme) == "multiscale"][0]
        if rnd.random() < 0.25:
            # defaults: num_scales 2, scale_factor 2
            if n == 2:
                ms.pop("num_scales")
            if sf == 2:
                ms.pop("scale_factor")
        # the multiscale step under a suffixed name (decided from a hash of the program: the random stream is unchanged)
        hh = hashlib.sha256(harness.jdump(prog).encode()).digest()
        if hh[0] < 52:
            sfx = ("ms", "coarse", "2", "multiscale", "a.b")[hh[1] % 5]
            prog = [[(nme + "." + sfx) if programs.kind_of(nme) == "multiscale" else nme, p] for nme, p in prog]
        return {"harness": "pipeline", "world": w, "program": prog, "knobs": {"multiscale_chunk": rnd.choice([1, 3, 7, 100])}}

    def execute(self, sc):
        w, prog = sc["world"], sc["program"]
        names = [n for n, _ in prog]
        kinds = [programs.kind_of(n) for n in names]
        ds = world.build(w)
        before = {s: ds[s].copy(deep=True) for s in ("left", "right")}
        res = pipeline.execute(sc, [lambda ctx, rec: MultiscaleMonitor(ctx, rec)], ds=ds)
        rec, ctx = res["rec"], res["ctx"]
        viol = list(rec.violations)
        cov = dict(ctx.cov) if ctx else {}
        if not res["ok"]:
            sig = runner.exc_sig(res["exc"])
            if res["stage"] == "run" and sig["where"].startswith(("img_tools.py", "multiscale/", "state_machine.py",
                                                                  "__init__.py", "check_configuration.py")):
                viol.append({"class": "C15.multiscale_run_raised", "sig": sig, "msg": str(res["exc"])[:200],
                             "bands": w["bands"], "masks": bool(w.get("mask_left") or w.get("mask_right"))})
            else:
                cov["skipped:" + res["stage"] + ":" + sig["exception"] + "@" + sig["where"]] = 1
            return {"violations": viol, "cov": cov, "shape": harness.jdump(kinds), "evaluations": 1 if viol else 0,
                    "digest": rec.log_digest()}
        mscfg = [ctx.cfg["pipeline"][n] for n in names if programs.kind_of(n) == "multiscale"][0]
        n, sf = int(mscfg["num_scales"]), int(mscfg["scale_factor"])
        mi = kinds.index("multiscale")
        run_events = [e for e in rec.events if e["phase"] == "run"]
        mc_events = [e for e in run_events if e["kind"] == "matching_cost"]
        if len(mc_events) != n:
            viol.append({"class": "C15.matching_cost_executions", "sig": {"expected": n, "got": len(mc_events)}})
        else:
            rows, cols = w["rows"], w["cols"]
            for i, e in enumerate(mc_events):
                k = n - 1 - i
                exp = (math.ceil(rows / sf ** k), math.ceil(cols / sf ** k))
                if tuple(e["shape"]) != exp:
                    viol.append({"class": "C15.level_image_size", "sig": {"level": k}, "got": e["shape"],
                                 "expected": exp})
                    break
            # every step before the multiscale step once per scale, in order
            exp_hist = []
            for s in range(n):
                for nm in names[:mi]:
                    exp_hist.append(nm)
                if s < n - 1:
                    exp_hist.append(names[mi])
                else:
                    exp_hist += [x for x in names[mi + 1:] if programs.kind_of(x) != "multiscale"]
            got_hist = [e["name"] for e in run_events]
            if got_hist != exp_hist:
                viol.append({"class": "C15.executed_step_history", "sig": {}, "got": got_hist, "expected": exp_hist})
            post = [e for e in run_events if e["name"] in names[mi + 1:]]
            if any(tuple(e["shape"]) != (rows, cols) for e in post):
                viol.append({"class": "C15.post_multiscale_step_not_full_size", "sig": {}})
        # coarsest level searches user / sf**(n-1)
        left = res["left"]
        if left is None or "disparity_map" not in getattr(left, "data_vars", {}):
            viol.append({"class": "C15.no_full_resolution_map_returned", "sig": {"num_scales": n}})
        elif left["disparity_map"].shape != (w["rows"], w["cols"]):
            viol.append({"class": "C15.returned_map_size", "sig": {}, "got": list(left["disparity_map"].shape)})
        for side in ("left", "right"):
            r = probes.datasets_equal(before[side], ds[side])
            if r:
                viol.append({"class": "C15.input_dataset_modified", "sig": {"side": side, "what": r.split(":")[0]},
                             "detail": r, "bands": w["bands"]})
        pr = dict(ctx.probes)
        pr["multiband_pyramid"] = int(w["bands"] > 1)
        pr["pyramid_with_masks"] = int(bool(w.get("mask_left") or w.get("mask_right")))
        pr["scales_ge_3"] = int(n >= 3)
        pr["steps_after_multiscale"] = int(mi < len(kinds) - 1)
        pr["validation_in_multiscale_program"] = int("validation" in kinds)
        return {
            "violations": viol,
            "cov": cov,
            "shape": harness.jdump([kinds, n, sf, w["bands"], bool(w.get("mask_left"))]),
            "digest": rec.log_digest(),
            "steps": len(rec.events),
            "probes": pr,
        }

    def simplify(self, sc):
        for c in pipeline.simplify_pipeline(sc, min_rows=12, min_cols=12):
            if any(programs.kind_of(n) == "multiscale" for n, _ in c["program"]):
                yield c

    def describe(self):
        return {
            "rule": "scenario = (world sized for the pyramid, legal program around one multiscale step, num_scales 2..4, "
            "scale_factor 2..3, marge 0..3, block-size knob); distinct = distinct (step-kind sequence, num_scales, "
            "scale_factor, bands, masks); non-trivial = the run completed and its event log was compared with the "
            "expected coarse-to-fine history and the per-pixel interval rule at every finer level.",
            "assumptions": [
                "level image sizes are ceil(size / scale_factor**k) (what skimage's pyramid produces)",
                "the level's 'whole user interval' is accepted within less than one scale_factor of user/sf**level "
                "(the implementation truncates to integers per level; counted by a probe)",
                "coarse pixel = any pixel within one pixel of floor(r/sf), floor(c/sf), as the statement allows",
                "the coarsest-level interval clause is decided through the C04/C06 style cost-volume range only "
                "indirectly; asserted here: executions, sizes, order, interval derivation, untouched inputs",
            ],
        }


if __name__ == "__main__":
    sys.exit(harness.main(C15(), os.path.abspath(__file__)))
