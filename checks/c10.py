"""
C10 - filters change only valid pixels, to an average of their valid neighbours.   DESIGN.md §5 (C10)
Filter events on maps produced by real prefixes; every event is re-run under other internal block partitions (the
'schedules' of the block loop) through the guarded chunk-size knob and must be bit-identical.
"""
import os
import sys

sys.path.insert(0, os.path.dirname(os.path.dirname(os.path.abspath(__file__))))
from sim import harness, pipeline, runner, programs  # noqa: E402
from sim.mon_filter import FilterMonitor  # noqa: E402

PROFILE = {
    "cv_kinds": ["cost_volume_confidence", "aggregation"],
    "max_cv": 1,
    "dm_kinds": ["filter", "filter", "filter", "refinement", "validation"],
    "must_dm": ["filter"],
    "min_dm": 1,
    "max_dm": 4,
    "mask_p": 0.6,
    "mono_p": 0.9,
    "fill_p": 0.3,
    "mc": {"max_window": 5},
    "intervals": True,
    "intervals_p": 0.3,
    "knobs": True,
    "rows": (3, 24),
    "cols": (4, 24),
}


class C10:
    prop = "C10"
    level = "exploration"
    budgets = {"quick": 1500, "thorough": 50000}
    warm_refinement = True

    def generate(self, rnd, index, tier):
        prof = dict(PROFILE)
        large = rnd.random() < 0.06
        if large:
            # straddle the shipped 50 / 100 pixel blocks with the knobs at their defaults
            prof["rows"] = rnd.choice([(49, 53), (99, 104), (60, 70)])
            prof["cols"] = rnd.choice([(49, 53), (99, 104), (101, 130)])
            prof["max_dm"] = 2
            prof["dm_kinds"] = ["filter"]
            prof["intervals"] = False
            prof["mask_p"] = 0.5
        sc = pipeline.gen_scenario(rnd, prof)
        if large:
            sc.pop("knobs", None)
            sc["large"] = True
            w = sc["world"]
            if w["disp"]["kind"] == "scalar":
                w["disp"]["min"], w["disp"]["max"] = -2, 2
        # window must fit in tiny worlds
        w = sc["world"]
        mc = sc["program"][0][1]
        while mc.get("window_size", 5) >= min(w["rows"], w["cols"]) and mc.get("window_size", 5) > 1:
            mc["window_size"] = mc.get("window_size", 5) - 2
        if mc["matching_cost_method"] == "census" and mc["window_size"] < 3:
            mc["matching_cost_method"] = "sad"
        return sc

    def execute(self, sc):
        res = pipeline.execute(sc, [lambda ctx, rec: FilterMonitor(ctx, rec)])
        rec, ctx = res["rec"], res["ctx"]
        viol = list(rec.violations)
        cov = dict(ctx.cov) if ctx else {}
        kinds = [programs.kind_of(n) for n, _ in sc["program"]]
        if not res["ok"]:
            sig = runner.exc_sig(res["exc"])
            cov["skipped:" + res["stage"] + ":" + sig["exception"] + "@" + sig["where"]] = 1
        pr = dict(ctx.probes) if ctx else {}
        fi = [i for i, k in enumerate(kinds) if k == "filter"]
        for i in fi:
            pr["filter_after:" + kinds[i - 1]] = 1
        pr["large_world_default_blocks"] = int(bool(sc.get("large")) and res["ok"])
        return {
            "violations": viol,
            "cov": cov,
            "shape": harness.jdump([kinds, [p.get("filter_method") for _, p in sc["program"] if "filter_method" in p],
                                    sc.get("knobs"), sc["world"]["rows"] // 8, sc["world"]["cols"] // 8]),
            "digest": rec.log_digest(),
            "steps": len(rec.events),
            "probes": pr,
            "evaluations": 1 if res["ok"] and cov.get("filter_events_checked") else 0,
        }

    def simplify(self, sc):
        return pipeline.simplify_pipeline(sc, min_rows=3, min_cols=4)

    def describe(self):
        return {
            "rule": "scenario = (world, legal program containing >= 1 filter step after an arbitrary legal prefix, "
            "block-size knobs); distinct = distinct (step-kind sequence, filter methods, knob values, size class); "
            "non-trivial = at least one filter event ran under the monitor and was re-run under 2 other block "
            "partitions.",
            "assumptions": [
                "filter radius for even bilateral widths read conservatively: pixels nearer to an edge than "
                "floor((w-1)/2) must be untouched; pixels the implementation covers are compared with the reference",
                "bilateral reference in float64, relative tolerance 1e-4; median exact up to 1e-6 (two-middle mean)",
                "median_for_intervals bands are compared with the median only when its regularisation is off",
            ],
            "extra_coverage": {"block_sizes_sampled": [1, 2, 3, 5, 7, 50, 100]},
        }


if __name__ == "__main__":
    sys.exit(harness.main(C10(), os.path.abspath(__file__)))
