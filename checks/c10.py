"""
C10 - filters change only valid pixels, to an average of their valid neighbours.   DESIGN.md §5 (C10)
Filter events on maps produced by real prefixes; every event is re-run under other internal block partitions (the
'schedules' of the block loop) through the guarded chunk-size knob and must be bit-identical.
"""
import os
import sys

sys.path.insert(0, os.path.dirname(os.path.dirname(os.path.abspath(__file__))))
from sim import harness, pipeline, runner, programs  # noqa: E402
from sim.mon_filter import FilterMonitor  # noqa: E402

PROFILE = {
    "cv_kinds": ["cost_volume_confidence", "aggregation"],
    "max_cv": 1,
    "dm_kinds": ["filter", "filter", "filter", "refinement", "validation"],
    "must_dm": ["filter"],
    "min_dm": 1,
    "max_dm": 4,
    "mask_p": 0.6,
    "mono_p": 0.9,
    "fill_p": 0.3,
    "mc": {"max_window": 5},
    "intervals": True,
    "intervals_p": 0.3,
    "knobs": True,
    "rows": (3, 24),
    "cols": (4, 24),
}


class C10:
    prop = "C10"
    level = "exploration"
    budgets = {"quick": 1500, "thorough": 50000}
    warm_refinement = True

    def gen_synthetic(self, rnd):
        """a disparity map / validity mask written down directly (invalid pixels anywhere, or nowhere at all)"""
        big = rnd.random() < 0.1
        rows, cols = (rnd.randint(51, 110), rnd.randint(51, 120)) if big else (rnd.randint(3, 20), rnd.randint(3, 22))
        filters = []
        for _ in range(rnd.randint(1, 3)):
            f = programs.p_filter(rnd, {"rows": rows, "cols": cols}, methods=("median", "bilateral", "median", "mfi"))
            if f["filter_method"] == "mfi":
                f = {"filter_method": "median_for_intervals", "interval_indicator": rnd.choice(["", "ib", "a.b"])}
                if rnd.random() < 0.7:
                    f["filter_size"] = rnd.choice([1, 3, 5])
            filters.append(f)
        sc = {"harness": "synthetic", "rows": rows, "cols": cols, "data_seed": rnd.getrandbits(32),
              "p_flag": rnd.choice([0.0, 0.0, 0.03, 0.1, 0.3, 0.9]), "p_nan_valid": rnd.choice([0.0, 0.0, 0.0, 0.02, 0.1]),
              "fractional": rnd.random() < 0.5, "value_range": rnd.choice([2, 5, 40]), "filters": filters}
        # memory layout of the arrays handed to the filter: row-major, column-major, or a strided view of a larger array
        sc["layout"] = rnd.choice(["C", "C", "F", "view"])
        if not big:
            sc["knobs"] = {"median_chunk": rnd.choice([1, 2, 3, 5, 7, 50, 100]),
                           "bilateral_chunk": rnd.choice([1, 2, 3, 5, 7, 50, 100])}
        return sc

    def exec_synthetic(self, sc):
        import numpy as np
        import xarray as xr
        from pandora import filter as pfilter
        from sim import knobs as knobs_, probes
        from sim.pipeline import Ctx

        rows, cols = sc["rows"], sc["cols"]
        g = np.random.Generator(np.random.PCG64(sc["data_seed"]))
        vr = sc["value_range"]
        disp = g.integers(-vr, vr + 1, size=(rows, cols)).astype(np.float32)
        if sc["fractional"]:
            disp = disp + (g.integers(0, 4, size=(rows, cols)) / 4).astype(np.float32)
        flags = np.zeros((rows, cols), dtype=np.uint16)
        u = g.random((rows, cols))
        invalid_values = np.array([1, 2, 64, 128, 256, 512, 3, 66, 260], dtype=np.uint16)
        sel = u < sc["p_flag"]
        flags[sel] = g.choice(invalid_values, size=int(sel.sum()))
        info = (g.random((rows, cols)) < 0.2) & ~sel
        flags[info] = g.choice(np.array([4, 8, 16, 32, 2048, 12], dtype=np.uint16), size=int(info.sum()))
        nanv = (g.random((rows, cols)) < sc["p_nan_valid"]) & ~sel
        disp[nanv] = np.nan  # a pixel flagged valid without disparity (what sgm filling can leave behind)
        disp[sel] = -9999
        labels = []
        for f in sc["filters"]:
            if f["filter_method"] == "median_for_intervals":
                sfx = "." + f["interval_indicator"] if f["interval_indicator"] else ""
                for lab in ("confidence_from_interval_bounds_inf" + sfx, "confidence_from_interval_bounds_sup" + sfx):
                    if lab not in labels:
                        labels.append(lab)
        def lay(a):
            if sc.get("layout", "C") == "F":
                return np.asfortranarray(a)
            if sc.get("layout") == "view":
                big_ = np.zeros(tuple(2 * n + 3 for n in a.shape[:2]) + a.shape[2:], dtype=a.dtype)
                v = big_[1:1 + 2 * a.shape[0]:2, 2:2 + 2 * a.shape[1]:2]
                v[...] = a
                return v
            return a

        disp, flags = lay(disp), lay(flags)
        ds = xr.Dataset({"disparity_map": (["row", "col"], disp), "validity_mask": (["row", "col"], flags)},
                        coords={"row": np.arange(rows), "col": np.arange(cols)})
        if labels:
            labels = ["confidence_from_ambiguity"] + labels
            conf = g.integers(-vr, vr + 1, size=(rows, cols, len(labels))).astype(np.float32)
            conf[g.random(conf.shape) < 0.05] = np.nan
            ds["confidence_measure"] = xr.DataArray(lay(conf), dims=["row", "col", "indicator"], coords={"indicator": labels})
        ds.attrs = {"offset_row_col": 0}
        knobs_.set_knobs(sc.get("knobs"))

        class Rec:
            def __init__(self):
                self.violations = []

            def violation(self, cls, **detail):
                self.violations.append({"class": cls, **detail})

        class Machine:
            left_img = ds
            step = 1

        rec = Rec()
        ctx = Ctx.__new__(Ctx)
        ctx.cov, ctx.probes, ctx.params, ctx.cfg = {}, {}, {}, {"pipeline": {}}
        mon = FilterMonitor(ctx, rec)
        for i, f in enumerate(sc["filters"]):
            name = f"filter.{i}"
            inst = pfilter.AbstractFilter(cfg=dict(f), image_shape=(rows, cols), step=1)
            ctx.params[name] = dict(f)
            ctx.cfg["pipeline"][name] = dict(inst.cfg)
            ev = {"name": name, "seq": i, "kind": "filter", "phase": "run"}
            pre = probes.snap_ds(ds, probes.DISP_VARS)
            copies = [ds.copy(deep=True) for _ in range(2)]
            try:
                inst.filter_disparity(ds)
            except ValueError as e:
                ctx.cov["skipped:run:ValueError@" + str(e)[:30]] = 1
                break
            post = probes.snap_ds(ds, probes.DISP_VARS)
            mon.check_side(ev, "left", f["filter_method"], ctx.cfg["pipeline"][name], pre, post)
            mon.block_independence(ev, "left", ctx.cfg["pipeline"][name], copies, ds, Machine)
            ctx.cov["filter_events_checked"] = ctx.cov.get("filter_events_checked", 0) + 1
        pr = dict(ctx.probes)
        pr["synthetic_map"] = 1
        pr["synthetic_map_without_any_invalid_pixel"] = int(not sel.any())
        pr["valid_pixel_without_disparity"] = int(bool(nanv.any()))
        pr["synthetic_map_layout:" + sc.get("layout", "C")] = 1
        return {"violations": rec.violations, "cov": ctx.cov, "probes": pr,
                "shape": harness.jdump(["synthetic", [f["filter_method"] for f in sc["filters"]], sc["p_flag"],
                                        sc["p_nan_valid"], sc.get("knobs"), sc.get("layout"), rows // 8, cols // 8]),
                "digest": probes.digest_dataset(ds), "steps": len(sc["filters"]),
                "evaluations": 1 if ctx.cov.get("filter_events_checked") else 0}

    def generate(self, rnd, index, tier):
        if rnd.random() < 0.3:
            return self.gen_synthetic(rnd)
        prof = dict(PROFILE)
        large = rnd.random() < 0.06
        if large:
            # straddle the shipped 50 / 100 pixel blocks with the knobs at their defaults
            prof["rows"] = rnd.choice([(49, 53), (99, 104), (60, 70)])
            prof["cols"] = rnd.choice([(49, 53), (99, 104), (101, 130)])
            prof["max_dm"] = 2
            prof["dm_kinds"] = ["filter"]
            prof["intervals"] = False
            prof["mask_p"] = 0.5
        sc = pipeline.gen_scenario(rnd, prof)
        if large:
            sc.pop("knobs", None)
            sc["large"] = True
            w = sc["world"]
            if w["disp"]["kind"] == "scalar":
                w["disp"]["min"], w["disp"]["max"] = -2, 2
        # window must fit in tiny worlds
        w = sc["world"]
        mc = sc["program"][0][1]
        while mc.get("window_size", 5) >= min(w["rows"], w["cols"]) and mc.get("window_size", 5) > 1:
            mc["window_size"] = mc.get("window_size", 5) - 2
        if mc["matching_cost_method"] == "census" and mc["window_size"] < 3:
            mc["matching_cost_method"] = "sad"
        return sc

    def execute(self, sc):
        if sc.get("harness") == "synthetic":
            return self.exec_synthetic(sc)
        res = pipeline.execute(sc, [lambda ctx, rec: FilterMonitor(ctx, rec)])
        rec, ctx = res["rec"], res["ctx"]
        viol = list(rec.violations)
        cov = dict(ctx.cov) if ctx else {}
        kinds = [programs.kind_of(n) for n, _ in sc["program"]]
        if not res["ok"]:
            sig = runner.exc_sig(res["exc"])
            cov["skipped:" + res["stage"] + ":" + sig["exception"] + "@" + sig["where"]] = 1
        pr = dict(ctx.probes) if ctx else {}
        fi = [i for i, k in enumerate(kinds) if k == "filter"]
        for i in fi:
            pr["filter_after:" + kinds[i - 1]] = 1
        pr["large_world_default_blocks"] = int(bool(sc.get("large")) and res["ok"])
        return {
            "violations": viol,
            "cov": cov,
            "shape": harness.jdump([kinds, [p.get("filter_method") for _, p in sc["program"] if "filter_method" in p],
                                    sc.get("knobs"), sc["world"]["rows"] // 8, sc["world"]["cols"] // 8]),
            "digest": rec.log_digest(),
            "steps": len(rec.events),
            "probes": pr,
            "evaluations": 1 if res["ok"] and cov.get("filter_events_checked") else 0,
        }

    def simplify(self, sc):
        if sc.get("harness") == "synthetic":
            import copy

            out = []
            for i in range(len(sc["filters"])):
                if len(sc["filters"]) > 1:
                    c = copy.deepcopy(sc)
                    del c["filters"][i]
                    out.append(c)
            for k in ("rows", "cols"):
                if sc[k] > 3:
                    c = copy.deepcopy(sc)
                    c[k] = max(3, sc[k] // 2)
                    out.append(c)
            for k, v in (("p_nan_valid", 0.0), ("fractional", False), ("knobs", None)):
                if sc.get(k):
                    c = copy.deepcopy(sc)
                    c[k] = v
                    if v is None:
                        c.pop(k)
                    out.append(c)
            return out
        return pipeline.simplify_pipeline(sc, min_rows=3, min_cols=4)

    def describe(self):
        return {
            "rule": "scenario = (world, legal program containing >= 1 filter step after an arbitrary legal prefix, "
            "block-size knobs); distinct = distinct (step-kind sequence, filter methods, knob values, size class); "
            "non-trivial = at least one filter event ran under the monitor and was re-run under 2 other block "
            "partitions.",
            "assumptions": [
                "filter radius for even bilateral widths read conservatively: pixels nearer to an edge than "
                "floor((w-1)/2) must be untouched; pixels the implementation covers are compared with the reference",
                "bilateral reference in float64, relative tolerance 1e-4; median exact up to 1e-6 (two-middle mean)",
                "median_for_intervals bands are compared with the median only when its regularisation is off",
            ],
            "extra_coverage": {"block_sizes_sampled": [1, 2, 3, 5, 7, 50, 100]},
        }


if __name__ == "__main__":
    sys.exit(harness.main(C10(), os.path.abspath(__file__)))
