"""
C08 - right products equal the left products of the mirrored problem.   DESIGN.md §5 (C08)
Inside the machine the left and right passes are interleaved on shared objects; the mirrored program executes the same
operations with the roles exchanged.  Bit-exact digests between executions of the same code.
"""
import copy
import os
import sys

import numpy as np

sys.path.insert(0, os.path.dirname(os.path.dirname(os.path.abspath(__file__))))
from sim import harness, pipeline, runner, probes, programs, world  # noqa: E402

PROFILE = {
    "cv_kinds": ["aggregation", "optimization", "semantic_segmentation", "cost_volume_confidence"],
    "max_cv": 3,
    "dm_kinds": ["refinement", "filter", "validation", "filter"],
    "need_validation": True,
    "min_dm": 1,
    "max_dm": 4,
    "mask_p": 0.6,
    "mono_p": 0.8,
    "fill_p": 0.4,
    "mc": {"max_window": 5},
    "intervals": True,
    "intervals_p": 0.2,
}
VARS = ["disparity_map", "validity_mask", "confidence_measure", "interpolated_coeff"]


def run_once(prog, ds, hook=None):
    machine, rec = runner.new_machine(snapshots=hook is not None)
    ok, out = runner.do_check(machine, programs.to_cfg(prog), ds)
    if not ok:
        return None, ("check", out), rec
    if hook is not None:
        rec.monitors.append(hook)
    ok, res = runner.do_run(machine, ds, out)
    if not ok:
        return None, ("run", res), rec
    return res, None, rec


def compare(a, b):
    """bit-exact comparison of the product variables + indicator labels of two datasets; returns reason or None"""
    va = sorted(v for v in VARS if v in a.data_vars)
    vb = sorted(v for v in VARS if v in b.data_vars)
    if va != vb:
        return f"variables {va} != {vb}"
    for v in va:
        x, y = a[v].data, b[v].data
        if x.dtype != y.dtype or x.shape != y.shape:
            return f"{v}: dtype/shape {x.dtype}{x.shape} != {y.dtype}{y.shape}"
        if probes._canon(x).tobytes() != probes._canon(y).tobytes():
            idx = np.argwhere(~((x == y) | (np.isnan(x.astype(float)) & np.isnan(y.astype(float)))))
            return f"{v}: values differ at {idx[0].tolist() if len(idx) else '?'}"
    for key in ("verif_optimization_saw", "verif_segmentation_saw"):
        # which images the stub plugins were handed, pass by pass (recorded by the stubs in the dataset attrs)
        if a.attrs.get(key) != b.attrs.get(key):
            return f"{key}: the plugin step was given other images: {a.attrs.get(key)} != {b.attrs.get(key)}"
    if "indicator" in a.coords or "indicator" in b.coords:
        la = [str(s) for s in a.coords["indicator"].data] if "indicator" in a.coords else []
        lb = [str(s) for s in b.coords["indicator"].data] if "indicator" in b.coords else []
        if la != lb:
            return f"indicator labels {la} != {lb}"
    return None


class ValidationHook:
    """left disparity map must be bit-identical across a cross-checking step without filling"""

    def __init__(self, prog, out):
        self.params = dict(prog)
        self.out = out

    def after(self, ev, pre, post, machine):
        if ev["kind"] != "validation" or post is None:
            return
        if "interpolated_disparity" in self.params[ev["name"]]:
            return
        for side in ("left", "right"):
            a, b = pre[side]["disp"], post[side]["disp"]
            if a is None or b is None:
                continue
            if probes._canon(a["disparity_map"]).tobytes() != probes._canon(b["disparity_map"]).tobytes():
                self.out.append({"class": "C08.cross_check_changed_disparity", "sig": {"side": side},
                                 "step": ev["name"]})


class C08:
    prop = "C08"
    level = "exploration"
    budgets = {"quick": 750, "thorough": 25000}
    warm_refinement = True

    def generate(self, rnd, index, tier):
        sc = pipeline.gen_scenario(rnd, PROFILE)
        if rnd.random() < 0.15:
            # the mirrored-problem equality must also hold across scales: a multiscale step, scalar (asymmetric) interval
            w = sc["world"]
            w["rows"], w["cols"] = rnd.randint(24, 36), rnd.randint(26, 40)
            lo = rnd.randint(-8, 2)
            w["disp"] = {"kind": "scalar", "min": lo, "max": lo + rnd.randint(2, 6)}
            w["disp_right"] = None
            w["bands"] = 1
            prog = [s_ for s_ in sc["program"] if s_[1].get("filter_method") != "median_for_intervals"]
            for n_, p_ in prog:
                p_.pop("band", None)
                if "RGB_bands" in p_:
                    p_["RGB_bands"] = None
            di = next(i for i, (n_, _) in enumerate(prog) if programs.kind_of(n_) == "disparity")
            prog.insert(rnd.randint(di + 1, len(prog)), ["multiscale", {"multiscale_method": "fixed_zoom_pyramid",
                                                                     "num_scales": 2, "scale_factor": rnd.choice([2, 2, 3]),
                                                                     "marge": rnd.choice([0, 1, 2])}])
            prog[0][1]["subpix"] = 1
            sc["program"] = prog
            sc["multiscale"] = True
        return sc

    def execute(self, sc):
        w, prog = sc["world"], sc["program"]
        kinds = [programs.kind_of(n) for n, _ in prog]
        viol, cov = [], {}
        a_ds = world.build(w)
        b_ds = world.build_mirrored(w)
        hookv = []
        A, errA, recA = run_once(prog, a_ds, ValidationHook(prog, hookv))
        if errA:
            sig = runner.exc_sig(errA[1])
            cov[f"skipped:{errA[0]}:{sig['exception']}@{sig['where']}"] = 1
            return {"violations": [], "cov": cov, "shape": harness.jdump(kinds), "evaluations": 0}
        viol += hookv
        B, errB, _ = run_once(prog, b_ds)
        if errB:
            viol.append({"class": "C08.mirrored_run_fails", "sig": runner.exc_sig(errB[1]), "stage": errB[0]})
        else:
            r = compare(A[1], B[0])
            if r:
                viol.append({"class": "C08.right_differs_from_mirrored_left", "sig": {"what": r.split(":")[0]},
                             "detail": r})
            r = compare(B[1], A[0])
            if r:
                viol.append({"class": "C08.mirrored_right_differs_from_left", "sig": {"what": r.split(":")[0]},
                             "detail": r})
        # without validation: right dataset empty; when validation was the last map-changing step and does not fill,
        # the left disparity map is unchanged by adding it
        noval = [s for s in prog if programs.kind_of(s[0]) != "validation"]
        C, errC, _ = run_once(noval, world.build(w))
        if errC:
            sig = runner.exc_sig(errC[1])
            cov[f"skipped_noval:{errC[0]}:{sig['exception']}@{sig['where']}"] = 1
        else:
            if len(C[1].data_vars) != 0:
                viol.append({"class": "C08.right_not_empty_without_validation", "sig": {}})
            vi = [i for i, k in enumerate(kinds) if k == "validation"]
            fills = any("interpolated_disparity" in prog[i][1] for i in vi)
            after = kinds[vi[0] + 1:]
            changing_after = [k for k in after if k in ("filter", "refinement", "validation")]
            # under a multiscale step the flags raised by validation at a coarse scale legitimately widen the next
            # scale's search intervals, so the clause is asserted for single-scale programs only
            if not fills and not changing_after and "multiscale" not in kinds:
                if probes._canon(A[0]["disparity_map"].data).tobytes() != probes._canon(C[0]["disparity_map"].data).tobytes():
                    viol.append({"class": "C08.validation_changed_left_map", "sig": {}})
                cov["left_map_compared_with_no_validation_run"] = 1
        return {
            "violations": viol,
            "cov": cov,
            "shape": harness.jdump([kinds, prog[0][1].get("matching_cost_method"), w["disp"]["kind"],
                                    bool(w.get("mask_left")), bool(w.get("mask_right"))]),
            "digest": probes.digest_products(A[0], A[1]),
            "steps": len(recA.events) * 3,
            "probes": {
                "masks_exchanged": int(bool(w.get("mask_left") or w.get("mask_right"))),
                "grids_exchanged": int(w["disp"]["kind"] == "grid"),
                "filling": int(any("interpolated_disparity" in p for _, p in prog)),
                "steps_after_validation": int(kinds[-1] != "validation"),
                "asymmetric_interval": int(world.disp_bounds(w)[0] != -world.disp_bounds(w)[1]),
                "multiband": int(w["bands"] > 1),
                "multiscale_program": int(bool(sc.get("multiscale"))),
            },
        }

    def simplify(self, sc):
        for c in pipeline.simplify_pipeline(sc):
            if any(programs.kind_of(n) == "validation" for n, _ in c["program"]):
                if c["world"]["disp"]["kind"] == "grid" and not c["world"].get("disp_right"):
                    continue
                yield c

    def describe(self):
        return {
            "rule": "scenario = (world, legal program with >= 1 validation step); three executions on fresh machines "
            "(original, mirrored, without validation); distinct = distinct (step-kind sequence, measure, interval kind, "
            "mask layout); non-trivial = all three runs completed and were compared bit-for-bit.",
            "assumptions": [
                "mirrored problem: datasets exchanged (images, masks), scalar interval [a,b] -> [-b,-a]; with grids the "
                "explicit right grids become the left grids and conversely",
                "compared: disparity_map, validity_mask, confidence_measure + indicator labels, interpolated_coeff",
            ],
        }


if __name__ == "__main__":
    sys.exit(harness.main(C08(), os.path.abspath(__file__)))
