"""C19: replays a saved configuration in a freshly spawned interpreter (the real 'restart'): argv = config.json out_dir"""
import os
import sys

sys.path.insert(0, os.path.dirname(os.path.dirname(os.path.abspath(__file__))))


def main():
    from sim import boot

    pandora = boot.boot()
    try:
        pandora.main(sys.argv[1], sys.argv[2], False)
    except Exception as e:  # noqa
        print("REPLAY-REFUSED " + type(e).__name__ + ": " + str(e)[:300])
        return 2
    print("REPLAY-OK")
    return 0


if __name__ == "__main__":
    sys.exit(main())
