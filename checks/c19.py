"""
C19 - saved products equal the computed ones and the saved configuration replays.   DESIGN.md §5 (C19)
Process / file-system boundary: pandora.main under the recording I/O seam; 'restart' = a process forked from the pristine
state that sees only the files; replay of cfg/config.json; write-fault sweep (complete per sampled scenario).
"""
import copy
import json
import math
import os
import sys

import numpy as np

sys.path.insert(0, os.path.dirname(os.path.dirname(os.path.abspath(__file__))))
from sim import harness, programs, world, runner, files, ioseam, probes, pipeline  # noqa: E402

PRODUCTS = ["disparity.tif", "validity_mask.tif", "confidence_measure.tif"]


def read_products(out_dir):
    """what a restarted process sees: {file: {dtype, shape, data(bytes digest + array), descriptions, crs, transform}}"""
    import rasterio
    import warnings

    res = {}
    for root, dirs, names in os.walk(out_dir):
        for n in sorted(names):
            p = os.path.join(root, n)
            rel = os.path.relpath(p, out_dir)
            if n.endswith(".tif"):
                with warnings.catch_warnings():
                    warnings.simplefilter("ignore")
                    with rasterio.open(p) as src:
                        arr = src.read()
                        res[rel] = {
                            "dtype": str(arr.dtype), "shape": list(arr.shape), "data": arr,
                            "descriptions": list(src.descriptions),
                            "crs": src.crs.to_string() if src.crs else None,
                            "transform": list(src.transform)[:6] if src.crs else None,
                        }
            else:
                with open(p, "rb") as f:
                    res[rel] = {"bytes": f.read()}
    return res


def in_fork(fn):
    """run fn() in a fork of the current process, return its JSON-able result"""
    r, w = os.pipe()
    pid = os.fork()
    if pid == 0:
        try:
            os.close(r)
            try:
                out = fn()
            except BaseException as e:  # noqa
                import traceback

                out = {"fork_error": f"{type(e).__name__}: {e}", "trace": traceback.format_exc()[-1500:]}
            with os.fdopen(w, "w") as f:
                f.write(harness.jdump(out))
        finally:
            os._exit(0)
    os.close(w)
    with os.fdopen(r) as f:
        data = f.read()
    os.waitpid(pid, 0)
    return json.loads(data) if data else {"fork_error": "no output"}


def same_array(a, b):
    return a.shape == b.shape and probes._canon(a).tobytes() == probes._canon(b).tobytes()


def norm_json(v):
    """normalise a configuration for comparison with what json.dump/json.load round-trips"""
    return json.loads(json.dumps(v, default=lambda o: o.item() if hasattr(o, "item") else str(o)))


def json_equal(a, b):
    if isinstance(a, float) and isinstance(b, float) and math.isnan(a) and math.isnan(b):
        return True
    if isinstance(a, dict) and isinstance(b, dict):
        return sorted(a) == sorted(b) and all(json_equal(a[k], b[k]) for k in a)
    if isinstance(a, list) and isinstance(b, list):
        return len(a) == len(b) and all(json_equal(x, y) for x, y in zip(a, b))
    return type(a) is type(b) and a == b


class C19:
    prop = "C19"
    level = "exploration"
    budgets = {"quick": 400, "thorough": 10000}
    scenario_timeout = 900
    warm_refinement = True

    def generate(self, rnd, index, tier):
        prof = {
            "cv_kinds": ["cost_volume_confidence", "cost_volume_confidence", "aggregation", "optimization"],
            "max_cv": 4, "dm_kinds": ["filter", "refinement", "validation"], "max_dm": 3, "mask_p": 0.4,
            "mono_p": 0.75, "fill_p": 0.4, "mc": {"max_window": 3}, "intervals": True, "intervals_p": 0.25,
        }
        if rnd.random() < 0.12:
            prof["invalid"] = rnd.choice(["inf", "-inf"])
        w = pipeline.gen_world_for(rnd, prof)
        w["rows"], w["cols"] = rnd.randint(6, 12), rnd.randint(8, 14)
        rot = rnd.choice([0.0, 0.0, 0.125])
        w["georef"] = {"crs": "EPSG:32631", "transform": [0.5, rot, 300000.0, -rot, -0.5, 4800000.0],
                       # the right image has its own footprint: right products carry the right image's georeferencing
                       "transform_right": [0.5, rot, 300012.5, -rot, -0.5, 4800000.0]} if rnd.random() < 0.5 else None
        if w["disp"]["kind"] == "grid" and rnd.random() < 0.5:
            w["disp_right"] = None
        prog = pipeline.gen_program(rnd, w, prof)
        if w["disp"]["kind"] == "grid" and not w.get("disp_right"):
            prog = [s for s in prog if programs.kind_of(s[0]) != "validation"]
        if rnd.random() < 0.25:
            # the only validation step carries a suffix
            vs = [st for st in prog if programs.kind_of(st[0]) == "validation"]
            if len(vs) == 1 and vs[0][0] == "validation":
                vs[0][0] = "validation.x"
        nod = rnd.choice([-9999, -9999, "NaN", 0])
        mode = rnd.choices(["plain", "preexisting", "stale", "out_is_file", "write_faults"], [5, 1, 1, 1, 2])[0]
        # an earlier job of the same process read other rasters at the same paths (decided from a hash, not from rnd,
        # so that earlier scenarios keep their content): the products must carry the georeferencing of the files that
        # are there when this job runs
        import hashlib

        hb = hashlib.sha256(harness.jdump([w, prog, nod, mode]).encode()).digest()[0]
        return {"harness": "cli", "world": w, "program": prog, "nodata": nod, "mode": mode,
                "prior_job": mode in ("plain", "preexisting") and hb % 4 == 0,
                "fresh_replay": mode == "plain" and rnd.random() < 0.08,
                "img_dtype": rnd.choice(["float32", "float32", "int16", "uint8"]),
                "fault": rnd.choice(["EIO", "ENOSPC", "EACCES"])}

    # -----------------------------------------------------------------------------------------------------------
    def execute(self, sc):
        w, prog = sc["world"], sc["program"]
        kinds = [programs.kind_of(n) for n, _ in prog]
        has_val = "validation" in kinds
        tmp = files.scratch_dir("verif_c19_")
        viol, cov, faults = [], {}, {}
        try:
            nodv = float("nan") if sc["nodata"] == "NaN" else sc["nodata"]
            inp = files.write_world(w, tmp, img_dtype=sc["img_dtype"] if sc["nodata"] != "NaN" else "float32",
                                    nodata_left=nodv if sc["nodata"] != "NaN" else np.nan,
                                    nodata_right=nodv if sc["nodata"] != "NaN" else np.nan)
            for side in ("left", "right"):
                inp[side]["nodata"] = sc["nodata"]
            user_cfg = {"input": inp, **programs.to_cfg(prog)}
            cfg_path = os.path.join(tmp, "cfg.json")
            files.write_json(cfg_path, user_cfg)
            out = os.path.join(tmp, "out")
            mode = sc["mode"]
            # a process forked NOW (pristine: nothing has run yet) performs the replay later
            go_r, go_w = os.pipe()
            res_r, res_w = os.pipe()
            replayer = os.fork()
            if replayer == 0:
                try:
                    os.close(go_w)
                    os.close(res_r)
                    cmd = os.read(go_r, 16)
                    result = {"skipped": True}
                    if cmd == b"go":
                        out2 = os.path.join(tmp, "out2")
                        r2 = ioseam.run_main(os.path.join(out, "cfg", "config.json"), out2, seam=None, capture=False)
                        result = {"ok": r2["ok"], "exc": None if r2["ok"] else runner.exc_sig(r2["exc"]),
                                  "msg": None if r2["ok"] else str(r2["exc"])[:300]}
                    with os.fdopen(res_w, "w") as f:
                        f.write(harness.jdump(result))
                finally:
                    os._exit(0)
            os.close(go_r)
            os.close(res_w)

            def finish_replayer(go):
                os.write(go_w, b"go" if go else b"no")
                os.close(go_w)
                with os.fdopen(res_r) as f:
                    data = f.read()
                os.waitpid(replayer, 0)
                return json.loads(data) if data else {"fork_error": True}

            if mode == "preexisting":
                os.makedirs(out)
            elif mode == "stale":
                os.makedirs(out)
                for n in ("right_disparity.tif", "right_validity_mask.tif", "left_confidence_measure.tif"):
                    files.write_raster(os.path.join(out, n), np.zeros((3, 4), dtype=np.float32))
            elif mode == "out_is_file":
                with open(out, "w") as f:
                    f.write("i am a file")
            if sc.get("prior_job"):
                import copy

                w0 = copy.deepcopy(w)
                w0["georef"] = None if w.get("georef") else {
                    "crs": "EPSG:32630", "transform": [2.0, 0.0, 500000.0, 0.0, -2.0, 4100000.0],
                    "transform_right": [2.0, 0.0, 500050.0, 0.0, -2.0, 4100000.0]}
                wargs = dict(img_dtype=sc["img_dtype"] if sc["nodata"] != "NaN" else "float32",
                             nodata_left=nodv if sc["nodata"] != "NaN" else np.nan,
                             nodata_right=nodv if sc["nodata"] != "NaN" else np.nan)
                files.write_world(w0, tmp, **wargs)
                ioseam.run_main(cfg_path, os.path.join(tmp, "out_prior"), seam=None, capture=False)
                files.write_world(w, tmp, **wargs)
                faults["prior_job_then_inputs_rewritten"] = 1
            seam = ioseam.IOSeam()
            res = ioseam.run_main(cfg_path, out, seam=seam)
            if mode == "out_is_file":
                finish_replayer(False)
                if res["ok"]:
                    viol.append({"class": "C19.output_path_is_a_file_but_main_returned", "sig": {}})
                faults["out_is_file"] = 1
                return self.result(sc, viol, cov, faults, kinds, seam)
            if not res["ok"]:
                finish_replayer(False)
                sig = runner.exc_sig(res["exc"])
                cov["skipped:cli:" + sig["exception"] + "@" + sig["where"]] = 1
                return self.result(sc, viol, cov, faults, kinds, seam, evaluated=0)
            left, right = res["products"]
            machine = res["machine"]
            # ---- files written through the seam
            written = [c["path"] for c in seam.calls if c["kind"] == "write"]
            expected = ["left_disparity.tif"] + (["left_confidence_measure.tif"] if "confidence_measure" in left else []) \
                + ["left_validity_mask.tif"]
            if has_val:
                expected += ["right_disparity.tif"] + (["right_confidence_measure.tif"] if "confidence_measure" in right
                                                       else []) + ["right_validity_mask.tif"]
            if sorted(written) != sorted(expected):
                viol.append({"class": "C19.files_written", "sig": {"validation": has_val}, "written": written,
                             "expected": expected})
            if has_val != (len(right.data_vars) != 0):
                viol.append({"class": "C19.right_products_iff_validation", "sig": {"validation": has_val}})
            cfgs = [c["path"] for c in seam.calls if c["kind"] == "cfg"]
            if cfgs != ["config.json"]:
                viol.append({"class": "C19.config_written", "sig": {}, "got": cfgs})
            # ---- restart: a forked reader sees only the files
            mem = {}
            for side, dsx in (("left", left), ("right", right)):
                if len(dsx.data_vars) == 0:
                    continue
                mem[side + "_disparity.tif"] = dsx["disparity_map"].data[None]
                mem[side + "_validity_mask.tif"] = dsx["validity_mask"].data[None]
                if "confidence_measure" in dsx:
                    mem[side + "_confidence_measure.tif"] = np.moveaxis(dsx["confidence_measure"].data, 2, 0)
            labels = {side: ([str(s) for s in dsx.coords["indicator"].data] if "indicator" in dsx.coords else [])
                      for side, dsx in (("left", left), ("right", right))}
            in_geo = w.get("georef")

            def reader():
                on_disk = read_products(out)
                problems = []
                listing = sorted(k for k in on_disk if k.endswith(".tif"))
                stale_ok = ["right_disparity.tif", "right_validity_mask.tif", "left_confidence_measure.tif"] \
                    if mode == "stale" else []
                for k in listing:
                    if k not in mem and k not in stale_ok:
                        problems.append(["unexpected_file", k])
                for k, arr in mem.items():
                    if k not in on_disk:
                        problems.append(["missing_file", k])
                        continue
                    d = on_disk[k]
                    want = "uint16" if "validity_mask" in k else "float32"
                    if d["dtype"] != want:
                        problems.append(["dtype", k, d["dtype"]])
                    a = arr.astype(np.float64)
                    b = d["data"].astype(np.float64)
                    if a.shape != b.shape or not (np.isnan(a) == np.isnan(b)).all() or not (a[~np.isnan(a)] == b[~np.isnan(b)]).all():
                        problems.append(["pixels", k])
                    if "confidence" in k:
                        side = k.split("_")[0]
                        if [x for x in d["descriptions"]] != labels[side]:
                            problems.append(["band_names", k, d["descriptions"], labels[side]])
                    if in_geo:
                        want_tr = in_geo.get("transform_right", in_geo["transform"]) if k.startswith("right_") else in_geo["transform"]
                        if d["crs"] != in_geo["crs"] or [round(x, 9) for x in d["transform"]] != [round(x, 9) for x in want_tr]:
                            problems.append(["georeferencing", k, d["crs"], d["transform"]])
                cfgp = os.path.join("cfg", "config.json")
                saved = None
                if cfgp not in on_disk:
                    problems.append(["missing_file", cfgp])
                else:
                    try:
                        saved = json.loads(on_disk[cfgp]["bytes"].decode())
                    except Exception as e:  # noqa
                        problems.append(["config_not_json", str(e)[:100]])
                return {"problems": problems, "saved": saved}

            rd = in_fork(reader)
            if "fork_error" in rd:
                raise RuntimeError("reader failed: " + str(rd))
            for pr in rd["problems"]:
                viol.append({"class": "C19.saved_product_differs", "sig": {"what": pr[0], "file": pr[1].split("_", 1)[-1]
                                                                           if len(pr) > 1 else None}, "detail": pr})
            saved = rd["saved"]
            if saved is not None:
                exp_margins = norm_json(machine.margins.to_dict())
                if not json_equal(saved.get("margins"), exp_margins):
                    viol.append({"class": "C19.saved_margins", "sig": {}, "saved": saved.get("margins"),
                                 "machine": exp_margins})
                # completed configuration: what configuration checking returns for the user's file
                from pandora import check_configuration as cc

                m2, _ = runner.new_machine(instrumented=False)
                completed = cc.check_conf(json.load(open(cfg_path)), m2)
                for sec in ("pipeline",):
                    a = {k: {kk: vv for kk, vv in v.items() if kk != "indicator"} for k, v in norm_json(completed[sec]).items()}
                    b = {k: {kk: vv for kk, vv in v.items() if kk != "indicator"} for k, v in saved.get(sec, {}).items()}
                    if not json_equal(a, b):
                        viol.append({"class": "C19.saved_configuration_not_the_completed_one", "sig": {"section": sec},
                                     "saved": b, "completed": a})
                a, b = norm_json(completed["input"]), saved.get("input", {})
                diff = [f"{s}.{k}" for s in ("left", "right") for k in a[s] if not json_equal(a[s][k], b.get(s, {}).get(k))]
                if diff:
                    viol.append({"class": "C19.saved_configuration_not_the_completed_one",
                                 "sig": {"section": "input", "keys": diff}, "saved": b, "completed": a})
            # ---- replay of the saved configuration from a pristine process
            rp = finish_replayer(True)
            if rp.get("fork_error") or rp.get("skipped"):
                raise RuntimeError("replayer failed: " + str(rp))
            if not rp["ok"]:
                viol.append({"class": "C19.saved_configuration_refused_on_replay",
                             "sig": {**rp["exc"], "left_disp": "ints" if w["disp"]["kind"] == "scalar" else "grid"},
                             "msg": rp["msg"]})
            else:
                def cmp_replay():
                    a, b = read_products(out), read_products(os.path.join(tmp, "out2"))
                    probs = []
                    for k in sorted(mem):
                        if k not in b:
                            probs.append(["missing_in_replay", k])
                        elif a[k]["dtype"] != b[k]["dtype"] or not same_array(a[k]["data"], b[k]["data"]) \
                                or a[k]["descriptions"] != b[k]["descriptions"]:
                            probs.append(["replay_differs", k])
                    return {"problems": probs}

                cr = in_fork(cmp_replay)
                for pr in cr.get("problems", []):
                    viol.append({"class": "C19.replay_differs", "sig": {"what": pr[0], "file": pr[1].split("_", 1)[-1]}})
                cov["replays_compared"] = 1
                if sc.get("fresh_replay"):
                    # the same replay in a freshly spawned interpreter: nothing but the files and the code survives
                    import subprocess

                    out3 = os.path.join(tmp, "out3")
                    worker = os.path.join(os.path.dirname(os.path.abspath(__file__)), "c19_replay_worker.py")
                    pr_ = subprocess.run([sys.executable, worker, os.path.join(out, "cfg", "config.json"), out3],
                                         capture_output=True, timeout=600, env=dict(os.environ))
                    if pr_.returncode != 0:
                        viol.append({"class": "C19.saved_configuration_refused_on_replay",
                                     "sig": {"fresh_interpreter": True}, "msg": pr_.stdout.decode(errors="replace")[-300:]})
                    else:
                        a_, b_ = read_products(out), read_products(out3)
                        for k in sorted(mem):
                            if k not in b_ or a_[k]["dtype"] != b_[k]["dtype"] or not same_array(a_[k]["data"], b_[k]["data"]) \
                                    or a_[k]["descriptions"] != b_[k]["descriptions"]:
                                viol.append({"class": "C19.replay_differs", "sig": {"what": "fresh_interpreter",
                                                                                    "file": k.split("_", 1)[-1]}})
                                break
                        cov["fresh_interpreter_replays_compared"] = 1
            # ---- write-fault sweep: complete over every write-open, makedirs and the config open
            if mode == "write_faults":
                plans = [("write", k) for k in range(seam.counts["write"])] + \
                        [("mkdir", k) for k in range(seam.counts["mkdir"])] + [("cfg", 0)]
                for kind, k in plans:
                    outf = os.path.join(tmp, f"outf_{kind}{k}")
                    s2 = ioseam.IOSeam([{"kind": kind, "call": k, "fault": sc["fault"]}])
                    r2 = ioseam.run_main(cfg_path, outf, seam=s2, capture=False)
                    for f in s2.fired:
                        faults[f"io:{kind}:{f['fault']}"] = faults.get(f"io:{kind}:{f['fault']}", 0) + 1
                    if s2.fired and r2["ok"]:
                        viol.append({"class": "C19.write_fault_swallowed", "sig": {"seam": kind, "fault": sc["fault"]},
                                     "call": k, "path": s2.fired[0]["path"]})
                        break
                cov["write_fault_runs"] = len(plans)
            return self.result(sc, viol, cov, faults, kinds, seam)
        finally:
            files.cleanup(tmp)

    def result(self, sc, viol, cov, faults, kinds, seam, evaluated=1):
        w = sc["world"]
        return {
            "violations": viol, "cov": cov, "faults": faults,
            "shape": harness.jdump([kinds, sc["mode"], sc["nodata"], w["disp"]["kind"], bool(w.get("georef")), w["bands"]]),
            "digest": harness.jdump([c["path"] for c in seam.calls]),
            "steps": len(seam.calls), "evaluations": evaluated,
            "probes": {"georeferenced_input": int(bool(w.get("georef"))), "nan_nodata": int(sc["nodata"] == "NaN"),
                       "nan_invalid_disparity": int(any(p.get("invalid_disparity") == "NaN" for _, p in sc["program"])),
                       "right_products": int("validation" in kinds), "grid_disparities": int(w["disp"]["kind"] == "grid"),
                       "confidence_bands": int("cost_volume_confidence" in kinds),
                       "fresh_interpreter_replay": int(bool(sc.get("fresh_replay"))),
                       "prior_job_same_paths": int(bool(sc.get("prior_job"))),
                       "mode:" + sc["mode"]: 1},
        }

    def simplify(self, sc):
        for c in pipeline.simplify_pipeline(sc):
            yield c
        if sc["mode"] != "plain":
            c = copy.deepcopy(sc)
            c["mode"] = "plain"
            yield c
        if sc.get("prior_job"):
            c = copy.deepcopy(sc)
            c["prior_job"] = False
            yield c

    def describe(self):
        return {
            "rule": "scenario = (world written as GeoTIFF with/without georeferencing, masks, grids; JSON configuration "
            "for an accepted program; output-directory mode: plain / pre-existing / stale products / a file / write "
            "fault sweep); distinct = distinct (step-kind sequence, mode, nodata, interval kind, georef, bands); "
            "non-trivial = main completed under the seam and its files were compared by a forked reader with the captured "
            "products, the saved configuration was compared and replayed from a pristine fork.",
            "assumptions": [
                "restart = a process forked from the pristine (booted, nothing-run) state that sees only the files; "
                "8 % of the plain scenarios additionally replay in a freshly spawned interpreter",
                "same rasters on replay = same dtype, band names and pixels bit-for-bit",
                "the completed configuration is what check_conf returns for the user's file; the 'indicator' keys that "
                "run-time adds to confidence steps are ignored in the comparison",
                "stale files of an earlier run that this run does not write are not counted against it",
                "GDAL writes are C-level: faults at call granularity (open / makedirs / config open)",
            ],
            "real_vs_stub": {**harness.REAL_VS_STUB, "real": harness.REAL_VS_STUB["real"] + [
                "rasterio/GDAL on a real scratch directory", "pandora.main, common.save_results/save_config"],
                "stub": harness.REAL_VS_STUB["stub"] + ["fault-injecting proxies of rasterio_open / open / os.makedirs "
                                                      "in pandora.common, img_tools, check_configuration"]},
        }


if __name__ == "__main__":
    sys.exit(harness.main(C19(), os.path.abspath(__file__)))
