"""
C18 - runs are reproducible and side-effect free whatever the threading.   DESIGN.md §5 (C18)
 (a) simulated prange schedules of every numba kernel's own source on arguments captured from real pipeline runs
 (b) histories of check / run / aborted-run / class-check operations over several machine objects in one process
 (c) real builds: NUMBA_NUM_THREADS 1/2/16 and PANDORA_NUMBA_PARALLEL False, separate interpreters (sampled, not steered)
"""
import copy
import hashlib
import json
import os
import subprocess
import sys

import numpy as np

sys.path.insert(0, os.path.dirname(os.path.dirname(os.path.abspath(__file__))))
from sim import harness, pipeline, runner, probes, programs, world, prange_sim, kcapture  # noqa: E402

KPROFILE = {
    "cv_kinds": ["cost_volume_confidence"] * 3 + ["aggregation"],
    "min_cv": 1, "max_cv": 4,
    "dm_kinds": ["refinement", "refinement", "filter", "validation"],
    "min_dm": 1, "max_dm": 3, "mask_p": 0.6, "mono_p": 0.9, "fill_p": 0.3, "mc": {"max_window": 3},
    "intervals": True, "intervals_p": 0.5, "rows": (5, 8), "cols": (6, 10),
}
HPROFILE = {
    "cv_kinds": ["cost_volume_confidence", "aggregation", "optimization", "semantic_segmentation"],
    "max_cv": 2, "dm_kinds": ["refinement", "filter", "validation"], "max_dm": 3, "mask_p": 0.5, "mono_p": 0.85,
    "fill_p": 0.4, "mc": {"max_window": 5}, "intervals": True, "intervals_p": 0.2,
}
STRATEGIES = ["uniform", "perm", "pct", "lockstep"]
BUILD_CONFIGS = [("False", "1"), ("True", "1"), ("True", "2"), ("True", "16")]
PRE_VALIDATION_BITS = 0b11000111  # bits 0,1,2,6,7


class InjectedAbort(MemoryError):
    pass


def approx_args_from(args):
    """
    Arguments for loop_approximate_refinement (reached by no pipeline) derived from captured loop_refinement arguments:
    a right map dr = -d_left; every pixel whose indices would not be safely inside the volume is flagged invalid.
    """
    cv, disp, mask, d_min, d_max, subpixel, measure, method = args
    disp = np.array(disp, copy=True)
    mask = np.array(mask, copy=True)
    rows, cols = disp.shape
    nd = cv.shape[2]
    dr = (-disp).astype(disp.dtype)
    for r in range(rows):
        for c in range(cols):
            d = float(disp[r, c])
            ok = np.isfinite(d) and d_min <= d <= d_max
            if ok:
                pos = (d - d_min) * subpixel
                k = int(pos)
                diag = c - d
                # exactly on a sample (as a value: -6.7e-23 has position 4.0 in float64 and is not the sample 0.0)
                ok = d_min + round(pos) / subpixel == d and 0 <= k <= nd - 1 and diag == int(diag) \
                    and 0 <= int(diag) < cols
            if not ok:
                mask[r, c] = 1
                dr[r, c] = 0
    # contiguous copy: one of the argument layouts the parent has already specialised the kernel for
    return [np.ascontiguousarray(cv), dr, mask, d_min, d_max, subpixel, measure, method]


class C18:
    prop = "C18"
    level = "exploration"
    budgets = {"quick": 1000, "thorough": 30000}
    scenario_timeout = 2400
    warm_refinement = True
    warm_approx_refinement = True

    def setup(self):
        found = set(prange_sim.discover())
        known = set(kcapture.dispatchers())
        if found - known:
            raise RuntimeError(f"prange kernels without a capture site: {sorted(found - known)}")
        for d in kcapture.dispatchers().values():
            prange_sim.transform(d)

    # -----------------------------------------------------------------------------------------------------------
    @staticmethod
    def twin_tweaks(rnd, prog, wb):
        return programs.twin_tweaks(rnd, prog, wb)

    def gen_twin_pair(self, rnd):
        """
        The shortest histories in which a leftover shared between machine objects shows: near-twins of a program (one
        parameter changed, chosen so that anything derived from it - a window width, a sample count - stays the same) run
        first, each on a machine of its own, then the program itself on a fresh machine; every run is compared with the
        solo run of its program in a fork of the pristine process.  (Decided from the scenario index, so that the random
        stream of the other histories is unchanged.)
        """
        w = pipeline.gen_world_for(rnd, HPROFILE)
        for _ in range(6):
            p = pipeline.gen_program(rnd, w, HPROFILE)
            tweaks = self.twin_tweaks(rnd, p, w)
            if tweaks:
                break
        progs = [{"world": 0, "program": p}]
        rnd.shuffle(tweaks)
        seen = set()
        for si, k_, v_ in tweaks:
            if (si, k_) in seen or len(progs) >= 3:
                continue
            seen.add((si, k_))
            t = copy.deepcopy(p)
            t[si][1][k_] = v_
            progs.append({"world": 0, "program": t})
        ops = [{"op": "run", "m": i, "p": i} for i in range(1, len(progs))]
        ops += [{"op": "run", "m": 0, "p": 0}, {"op": "run", "m": 0, "p": 0}]
        if len(progs) > 1:
            ops.append({"op": "run", "m": len(progs), "p": 1})
        bad = {"world": 0, "program": [["disparity", {"disparity_method": "wta"}],
                                        ["matching_cost", {"matching_cost_method": "sad"}]]}
        return {"harness": "history", "worlds": [w], "programs": progs, "bad": bad, "ops": ops,
                "machines": len(progs) + 1, "twin_pair": True}

    def generate(self, rnd, index, tier):
        if index == 0:
            n = 24 if tier == "quick" else 300
            scs = []
            for i in range(n):
                r2 = harness.scenario_rng("C18-builds", rnd.getrandbits(30), i)
                sc_ = pipeline.gen_scenario(r2, HPROFILE)
                mc_ = sc_["program"][0][1]
                if mc_["matching_cost_method"] == "zncc" and mc_.get("window_size", 5) == 1:
                    mc_["window_size"] = 3  # zncc on 1-pixel windows is a constant volume by construction
                scs.append(sc_)
            return {"harness": "builds", "scenarios": scs}
        r = rnd.random()
        if r < 0.45:
            sc = pipeline.gen_scenario(rnd, KPROFILE)
            for n_, p_ in sc["program"]:
                if p_.get("confidence_method") in ("ambiguity", "risk"):
                    # eta_max/eta_step away from an integer ratio: the sample count is then the same under every executor
                    p_["eta_max"], p_["eta_step"] = rnd.choice([(0.33, 0.05), (0.5, 0.07), (0.7, 0.03), (0.9, 0.07),
                                                                (0.2, 0.03), (0.7, 0.011)])
            return {"harness": "kernel", "world": sc["world"], "program": sc["program"],
                    "threads": rnd.choice([2, 2, 3, 4]), "assignment": rnd.choice(["static", "static", "random"]),
                    "schedules": [[rnd.choice(STRATEGIES), rnd.getrandbits(32)] for _ in range(6 if tier == "quick" else 12)]}
        # histories
        if hashlib.sha256(f"twin-pair:{index}".encode()).digest()[0] < 56:
            return self.gen_twin_pair(rnd)
        nw, npg, nm = rnd.randint(1, 2), rnd.randint(1, 3), rnd.randint(1, 4)
        worlds, progs = [], []
        for _ in range(nw):
            worlds.append(pipeline.gen_world_for(rnd, HPROFILE))
        ms_world = None
        if rnd.random() < 0.15:
            # one world sized for a two-level pyramid, scalar interval: programs on it get a multiscale step
            ms_world = rnd.randrange(nw)
            wm = worlds[ms_world]
            wm["rows"], wm["cols"], wm["bands"] = rnd.randint(24, 34), rnd.randint(26, 38), 1
            lo = rnd.randint(-6, 0)
            wm["disp"], wm["disp_right"] = {"kind": "scalar", "min": lo, "max": lo + rnd.randint(2, 6)}, None
        for i in range(npg):
            wi = rnd.randrange(nw)
            p = pipeline.gen_program(rnd, worlds[wi], HPROFILE)
            if wi == ms_world:
                p = [st for st in p if st[1].get("filter_method") != "median_for_intervals"]
                p[0][1]["subpix"] = 1
                di = next(k_ for k_, (n_, _) in enumerate(p) if programs.kind_of(n_) == "disparity")
                p.insert(rnd.randint(di + 1, len(p)), ["multiscale", {"multiscale_method": "fixed_zoom_pyramid",
                                                                       "num_scales": 2, "scale_factor": 2}])
            if rnd.random() < 0.25:
                # a pipeline whose only validation step carries a suffix
                p = [[("validation.x" if n == "validation" else n), q] for n, q in p]
            progs.append({"world": wi, "program": p})
        if npg >= 2 and rnd.random() < 0.6:
            # a near-twin of program 0 (same steps, one parameter changed) on the same world: what a cache keyed on too
            # little, or any other leftover shared between machine objects, would confuse
            twin = copy.deepcopy(progs[0])
            tweaks = self.twin_tweaks(rnd, twin["program"], worlds[twin["world"]])
            if tweaks:
                si, k_, v_ = rnd.choice(tweaks)
                twin["program"][si][1][k_] = v_
                progs[1] = twin
        if rnd.random() < 0.12:
            # twins that differ only by the matching-cost band, on one multiband world, with sub-pixel matching
            from sim.world import BAND_NAMES

            wb = worlds[0]
            wb["bands"] = 3
            wb["disp_right"] = wb["disp_right"] if wb["disp"]["kind"] == "grid" else None
            p0 = pipeline.gen_program(rnd, wb, HPROFILE)
            p0 = [st for st in p0 if programs.kind_of(st[0]) != "aggregation"]
            p0[0][1].update({"matching_cost_method": rnd.choice(["zncc", "census"]), "subpix": rnd.choice([2, 4]),
                             "window_size": 3, "band": BAND_NAMES[0]})
            for st in p0:
                if "RGB_bands" in st[1]:
                    st[1]["RGB_bands"] = {"R": "r", "G": "g", "B": "b"}
            p1 = copy.deepcopy(p0)
            p1[0][1]["band"] = rnd.choice(BAND_NAMES[1:3])
            progs = [{"world": 0, "program": p0}, {"world": 0, "program": p1}] + progs[2:]
            npg = len(progs)
        bad = {"world": 0, "program": [["disparity", {"disparity_method": "wta"}],
                                        ["matching_cost", {"matching_cost_method": "sad"}]]}
        ops = []
        checked = set()
        for _ in range(rnd.randint(3, 15)):
            m = rnd.randrange(nm)
            pi = rnd.randrange(npg)
            x = rnd.random()
            if x < 0.2:
                ops.append({"op": "check", "m": m, "p": pi})
                checked.add((m, pi))
            elif x < 0.3:
                ops.append({"op": "check_bad", "m": m})
            elif x < 0.75:
                ops.append({"op": "run", "m": m, "p": pi})
            elif x < 0.87:
                ops.append({"op": "abort_run", "m": m, "p": pi, "at": rnd.randint(0, 6)})
            else:
                k = rnd.choice(["matching_cost", "filter", "cost_volume_confidence"])
                meth = {"matching_cost": rnd.choice(["sad", "census", "zncc"]), "filter": rnd.choice(["median", "bilateral"]),
                        "cost_volume_confidence": rnd.choice(["ambiguity", "risk"])}[k]
                cfgk = {"matching_cost": "matching_cost_method", "filter": "filter_method",
                        "cost_volume_confidence": "confidence_method"}[k]
                cfg = {cfgk: meth}
                if rnd.random() < 0.4:
                    cfg.update({"matching_cost": {"window_size": 4}, "filter": {"filter_size": 2},
                                "cost_volume_confidence": {"eta_max": -1.0}}[k])
                ops.append({"op": "class_check", "kind": k, "cfg": cfg})
        sc = {"harness": "history", "worlds": worlds, "programs": progs, "bad": bad, "ops": ops, "machines": nm}
        return self.add_refused_twin(sc, index)

    @staticmethod
    def add_refused_twin(sc, index):
        """
        One scenario in six (decided from a hash, no draw from rnd) also carries a program that a pristine process
        refuses: program 0 with one parameter just outside its domain.  Checked / run on machines of its own after other
        step classes were checked, it must still be refused: a verdict is a result too.
        """
        h = hashlib.sha256(f"refused-twin:{index}".encode()).digest()
        if h[0] % 6 != 0:
            return sc
        twin = copy.deepcopy(sc["programs"][0])
        mc = twin["program"][0][1]
        tweak = h[1] % 4
        if tweak == 0:
            mc.update({"matching_cost_method": "census", "window_size": (7, 9, 11)[h[2] % 3]})
        elif tweak == 1:
            mc.update({"matching_cost_method": ("sad", "ssd", "zncc")[h[2] % 3], "window_size": (2, 4)[h[3] % 2]})
        elif tweak == 2:
            mc["subpix"] = (3, 5)[h[2] % 2]
        else:
            fs = [st for st in twin["program"] if st[1].get("filter_method") in ("median", "median_for_intervals")]
            if fs:
                fs[0][1]["filter_size"] = (2, 4)[h[2] % 2]
            else:
                mc.update({"matching_cost_method": "census", "window_size": 7})
        sc["programs"].append(twin)
        pi, nm = len(sc["programs"]) - 1, sc["machines"]
        ops = sc["ops"]
        other = {"census": "sad"}.get(mc.get("matching_cost_method"), "census")
        tail = [{"op": "class_check", "kind": "matching_cost", "cfg": {"matching_cost_method": other}},
                {"op": "check" if h[4] % 2 else "run", "m": nm, "p": pi},
                {"op": "run", "m": nm + 1, "p": pi}]
        at = len(ops) - (h[5] % (len(ops) + 1))
        sc["ops"] = ops[:at] + tail[:1] + ops[at:] + tail[1:]
        sc["machines"] = nm + 2
        return sc

    # -----------------------------------------------------------------------------------------------------------
    def execute(self, sc):
        return getattr(self, "exec_" + sc["harness"])(sc)

    # ------------------------------------------------------------------------------------------ (a)
    def exec_kernel(self, sc):
        cap = kcapture.Capture(per_kernel=2).install()
        try:
            res = pipeline.execute(sc, [], snapshots=False)
        finally:
            cap.uninstall()
        viol, cov, pr = [], {}, {}
        if not res["ok"]:
            sig = runner.exc_sig(res["exc"])
            cov["skipped:" + res["stage"] + ":" + sig["exception"] + "@" + sig["where"]] = 1
        disps = kcapture.dispatchers()
        calls = dict(cap.calls)
        # kernels no pipeline reaches: derive their arguments from the captured ones
        if "AbstractRefinement.loop_refinement" in calls and "AbstractRefinement.loop_approximate_refinement" in disps:
            calls["AbstractRefinement.loop_approximate_refinement"] = [
                (approx_args_from(a), None) for a, _ in calls["AbstractRefinement.loop_refinement"][:1]]
        if "Risk.compute_risk" in calls and "Risk.compute_risk_and_sampled_risk" in disps:
            calls["Risk.compute_risk_and_sampled_risk"] = [(a, None) for a, _ in calls["Risk.compute_risk"][:1]]
        nsched = 0
        sigs = set()
        steps = 0
        shapes = []
        for qual, lst in sorted(calls.items()):
            d = disps[qual]
            for args, compiled in lst:
                cvs = [a for a in args if isinstance(a, np.ndarray) and a.ndim == 3 and a.dtype.kind == "f"]
                if cvs:
                    fin = cvs[0][np.isfinite(cvs[0])]
                    if fin.size == 0 or fin.min() == fin.max():
                        pr["degenerate_cost_volume_skipped"] = pr.get("degenerate_cost_volume_skipped", 0) + 1
                        continue
                etas = [a for a in args if isinstance(a, (float, np.floating))]
                if "eta" in "".join(d.py_func.__code__.co_varnames[:6]) and len(etas) >= 3 and \
                        abs(etas[-2] / etas[-1] - round(etas[-2] / etas[-1])) < 1e-3:
                    # float32 arange yields one eta sample more or less depending on the executor (DESIGN §3.2): the
                    # captured sampled_ambiguity (compiled, e.g. 34 samples) does not fit the interpreter's 33
                    pr["call_skipped_eta_count_ambiguous"] = pr.get("call_skipped_eta_count_ambiguous", 0) + 1
                    continue
                try:
                    ref, info = prange_sim.run_sim(d, args, prange_sim.Sim("sequential"))
                except ZeroDivisionError:
                    pr["sequential_sim_zero_division_skipped"] = pr.get("sequential_sim_zero_division_skipped", 0) + 1
                    continue
                if compiled is None:
                    try:
                        out = d(*[copy.deepcopy(a) if isinstance(a, np.ndarray) else a for a in args])
                        compiled = list(out) if isinstance(out, tuple) else [out]
                    except Exception as e:  # noqa
                        cov["compiled_call_failed:" + qual] = 1
                        compiled = None
                if False:
                    pass
                elif compiled is not None:
                    why = prange_sim.outputs_close(ref[: len(compiled)], compiled)
                    # thresholded kernels (possibility >= threshold, cost <= min + eta) may legitimately flip a sample
                    # between float32-numba and float32-numpy arithmetic: counted per kernel, judged over the batch in
                    # finish() (a systematic disagreement means the simulated model is not the shipped kernel)
                    cov[("fidelity_mismatch:" if why else "fidelity_ok:") + qual] = \
                        cov.get(("fidelity_mismatch:" if why else "fidelity_ok:") + qual, 0) + 1
                for strat, seed in sc["schedules"]:
                    sim = prange_sim.Sim(strat, threads=sc["threads"], seed=seed, assignment=sc["assignment"])
                    out, _ = prange_sim.run_sim(d, args, sim)
                    nsched += 1
                    steps += sim.steps
                    sigs.add(qual + ":" + sim.signature())
                    pr["context_switches"] = pr.get("context_switches", 0) + sim.switches
                    pr["rmw_site_interleaved"] = pr.get("rmw_site_interleaved", 0) + sim.rmw_interleaved
                    if not prange_sim.outputs_equal(out, ref):
                        viol.append({"class": "C18.result_depends_on_prange_schedule",
                                     "sig": {"kernel": qual}, "strategy": strat, "sched_seed": seed,
                                     "threads": sc["threads"], "partition": sim.partitions,
                                     "choices_head": [c[:60] for c in sim.log]})
                        break
                shapes.append(harness.jdump([qual, [list(a.shape) for a in args if isinstance(a, np.ndarray)]]))
                pr["kernel:" + qual] = pr.get("kernel:" + qual, 0) + 1
        cov["schedules"] = nsched
        return {"violations": viol, "cov": cov, "shapes": shapes, "digest": harness.jdump(sorted(sigs)), "steps": steps,
                "probes": pr, "evaluations": nsched, "sets": {"distinct_schedules": sorted(sigs)}}

    # ------------------------------------------------------------------------------------------ (b)
    def reference(self, prog, ds_spec):
        """digest of the first run of (program, world) on a fresh machine, in a fork of the pristine state"""
        def job():
            ds = world.build(ds_spec)
            m, _ = runner.new_machine(instrumented=False)
            ok, cfg = runner.do_check(m, programs.to_cfg(prog), ds)
            if not ok:
                return {"ok": False, "stage": "check", **runner.exc_sig(cfg)}
            ok, out = runner.do_run(m, ds, cfg)
            if not ok:
                return {"ok": False, "stage": "run", **runner.exc_sig(out)}
            return {"ok": True, "digest": probes.digest_products(out[0], out[1])}

        r, w = os.pipe()
        pid = os.fork()
        if pid == 0:
            try:
                os.close(r)
                try:
                    res = job()
                except BaseException as e:  # noqa
                    res = {"ok": False, "stage": "harness", "exception": repr(e)}
                with os.fdopen(w, "w") as f:
                    f.write(harness.jdump(res))
            finally:
                os._exit(0)
        os.close(w)
        with os.fdopen(r) as f:
            data = f.read()
        os.waitpid(pid, 0)
        return json.loads(data)

    def exec_history(self, sc):
        from pandora import check_configuration as cc

        viol, cov, pr, faults = [], {}, {}, {}
        refs = []
        for p in sc["programs"]:
            refs.append(self.reference(p["program"], sc["worlds"][p["world"]]))
            if refs[-1].get("stage") == "harness":
                raise RuntimeError("reference run failed: " + str(refs[-1]))
        dsets = [world.build(w) for w in sc["worlds"]]
        before = [{s: d[s].copy(deep=True) for s in ("left", "right")} for d in dsets]
        machines = {}
        state = {}  # m -> {"retired": bool, "pipelines": set of program indices checked/run, "any": bool}
        checked_cfg = {}

        def get_cfg(pi):
            # the completed configuration of program pi, obtained on a machine of its own (never used for runs)
            if pi not in checked_cfg:
                p = sc["programs"][pi]
                m0, _ = runner.new_machine(instrumented=False)
                ok, out = runner.do_check(m0, programs.to_cfg(p["program"]), dsets[p["world"]])
                checked_cfg[pi] = out if ok else None
            return copy.deepcopy(checked_cfg[pi])

        def machine(mi):
            if mi not in machines:
                machines[mi] = runner.new_machine(snapshots=False)
                state[mi] = {"retired": False, "pipelines": set(), "used": False}
            return machines[mi]

        for oi, op in enumerate(sc["ops"]):
            kind = op["op"]
            cov["op_" + kind] = cov.get("op_" + kind, 0) + 1
            if kind == "class_check":
                try:
                    if op["kind"] == "matching_cost":
                        from pandora import matching_cost
                        matching_cost.AbstractMatchingCost(**copy.deepcopy(op["cfg"]))
                    elif op["kind"] == "filter":
                        from pandora import filter as pf
                        pf.AbstractFilter(cfg=copy.deepcopy(op["cfg"]), image_shape=(10, 10), step=1)
                    else:
                        from pandora import cost_volume_confidence as cvc
                        cvc.AbstractCostVolumeConfidence(**copy.deepcopy(op["cfg"]))
                except Exception:  # noqa
                    faults["rejected_class_check"] = faults.get("rejected_class_check", 0) + 1
                continue
            m, rec = machine(op["m"])
            st = state[op["m"]]
            if kind == "check_bad":
                ok, _ = runner.do_check(m, programs.to_cfg(sc["bad"]["program"]), dsets[0])
                st["retired"] = True
                faults["rejected_check"] = faults.get("rejected_check", 0) + 1
                continue
            pi = op["p"]
            p = sc["programs"][pi]
            ds = dsets[p["world"]]
            ref = refs[pi]
            if kind == "check":
                ok, out = runner.do_check(m, programs.to_cfg(p["program"]), ds)
                if not ok:
                    st["retired"] = True
                    if ref["ok"] and not st["used"]:
                        viol.append({"class": "C18.check_depends_on_history", "sig": runner.exc_sig(out), "op": oi})
                else:
                    if ref.get("stage") == "check" and not st["used"]:
                        viol.append({"class": "C18.check_succeeds_only_with_history", "sig": {}, "op": oi,
                                     "names": [n for n, _ in p["program"]]})
                    st["pipelines"].add(pi)
                st["used"] = True
                continue
            cfg = get_cfg(pi)
            if cfg is None:
                continue
            # asserted only for a fresh machine or one that so far only checked / ran THIS pipeline
            asserted = (not st["retired"]) and st["pipelines"] <= {pi}
            if kind == "abort_run":
                n_ev = [0]

                def fault(ev, n_ev=n_ev, at=op["at"]):
                    if ev["phase"] == "run":
                        n_ev[0] += 1
                        if n_ev[0] - 1 == at:
                            return InjectedAbort("injected allocation failure")
                    return None

                rec.fault = fault
                ok, out = runner.do_run(m, ds, cfg)
                rec.fault = None
                if not ok and isinstance(out, InjectedAbort):
                    faults["aborted_run"] = faults.get("aborted_run", 0) + 1
                    st["retired"] = True
                    st["used"] = True
                    continue
                # the fault index lay beyond the last step: an ordinary run, falls through to the assertions
            else:
                ok, out = runner.do_run(m, ds, cfg)
            st["used"] = True
            fresh = st["pipelines"] == set()
            st["pipelines"].add(pi)
            if not asserted:
                pr["interference_run"] = pr.get("interference_run", 0) + 1
                if not ok:
                    st["retired"] = True
                continue
            pr["asserted_run_fresh_machine" if fresh else "asserted_run_machine_knows_pipeline"] = \
                pr.get("asserted_run_fresh_machine" if fresh else "asserted_run_machine_knows_pipeline", 0) + 1
            if not ref["ok"]:
                if ok:
                    viol.append({"class": "C18.run_succeeds_only_with_history", "sig": {"ref_stage": ref.get("stage")},
                                 "op": oi})
                else:
                    st["retired"] = True
                continue
            if not ok:
                st["retired"] = True
                viol.append({"class": "C18.run_fails_depending_on_history",
                             "sig": {**runner.exc_sig(out), "fresh_machine": fresh}, "op": oi,
                             "names": [n for n, _ in p["program"]]})
                continue
            dig = probes.digest_products(out[0], out[1])
            if dig != ref["digest"]:
                viol.append({"class": "C18.products_depend_on_history", "sig": {"fresh_machine": fresh}, "op": oi,
                             "names": [n for n, _ in p["program"]],
                             "history": [o["op"] for o in sc["ops"][:oi]]})
            cov["asserted_runs"] = cov.get("asserted_runs", 0) + 1
            for wi, d in enumerate(dsets):
                for side in ("left", "right"):
                    why = probes.datasets_equal(before[wi][side], d[side])
                    if why:
                        viol.append({"class": "C18.input_dataset_modified", "sig": {"side": side, "what": why.split(":")[0]},
                                     "op": oi})
                        before[wi][side] = d[side].copy(deep=True)
        kinds = sorted({programs.kind_of(n) for p in sc["programs"] for n, _ in p["program"]})
        return {"violations": viol, "cov": cov, "faults": faults, "probes": pr,
                "shape": harness.jdump([[o["op"] for o in sc["ops"]], kinds]),
                "digest": harness.jdump([r.get("digest") for r in refs]), "steps": len(sc["ops"]),
                "evaluations": cov.get("asserted_runs", 0) or 0}

    # ------------------------------------------------------------------------------------------ (c)
    def exec_builds(self, sc):
        import tempfile

        tmp = tempfile.mkdtemp(prefix="verif_c18_")
        try:
            spath = os.path.join(tmp, "scenarios.json")
            with open(spath, "w") as f:
                json.dump(sc["scenarios"], f)
            worker = os.path.join(os.path.dirname(os.path.abspath(__file__)), "c18_build_worker.py")
            procs = []
            for par, thr in BUILD_CONFIGS:
                for rep in range(2):
                    env = dict(os.environ)
                    env.update({"VERIF_BUILD_PARALLEL": par, "VERIF_BUILD_THREADS": thr, "PYTHONHASHSEED": "0"})
                    env.pop("NUMBA_THREADING_LAYER", None)
                    out = os.path.join(tmp, f"out_{par}_{thr}_{rep}.json")
                    procs.append(((par, thr, rep), out, subprocess.Popen(
                        [sys.executable, worker, spath, out], env=env, stdout=subprocess.DEVNULL,
                        stderr=subprocess.PIPE)))
            results = {}
            for key, out, p in procs:
                try:
                    _, err = p.communicate(timeout=2000)
                except subprocess.TimeoutExpired:
                    p.kill()
                    raise RuntimeError(f"build worker {key} timed out")
                if p.returncode != 0 or not os.path.exists(out):
                    raise RuntimeError(f"build worker {key} failed: {err.decode(errors='replace')[-800:]}")
                with open(out) as f:
                    results[key] = json.load(f)
            viol, cov = [], {"real_thread_runs": 0}
            n = len(sc["scenarios"])
            for i in range(n):
                rows = {k: r[i] for k, r in results.items()}
                cov["real_thread_runs"] += len(rows)
                ok_keys = [k for k, r in rows.items() if r.get("ok")]
                if len(ok_keys) != len(rows):
                    if ok_keys:
                        failed = {k: r for k, r in rows.items() if k not in ok_keys}
                        only_seq = all(k[0] == "False" for k in failed) and all(k[0] == "True" for k in ok_keys)
                        excs = sorted({(r.get("exc"), r.get("where")) for r in failed.values()})
                        viol.append({"class": "C18.run_outcome_depends_on_build",
                                     "sig": {"only_sequential_build_fails": only_seq,
                                             "exception": excs[0][0] if len(excs) == 1 else "several",
                                             "in_confidence_kernel": all("cost_volume_confidence/" in (w_ or "")
                                                                         for _, w_ in excs)},
                                     "scenario": i, "where": [w_ for _, w_ in excs],
                                     "failed": [list(k) for k in failed]})
                    continue
                par = {k: r for k, r in rows.items() if k[0] == "True"}
                full = {r["full"] for r in par.values()}
                if len(full) != 1:
                    viol.append({"class": "C18.products_depend_on_thread_count_or_repetition", "sig": {},
                                 "scenario": i, "digests": {f"{k[1]}t/rep{k[2]}": r["full"][:12] for k, r in par.items()}})
                seq = {k: r for k, r in rows.items() if k[0] == "False"}
                if len({r["full"] for r in seq.values()}) != 1:
                    viol.append({"class": "C18.sequential_build_not_repeatable", "sig": {}, "scenario": i})
                if len({r["core"] for r in rows.values()}) != 1:
                    viol.append({"class": "C18.disparity_or_flags_depend_on_parallel_switch", "sig": {}, "scenario": i,
                                 "digests": {f"{k[0]}/{k[1]}t/rep{k[2]}": r["core"][:12] for k, r in rows.items()}})
                cov["build_scenarios_compared"] = cov.get("build_scenarios_compared", 0) + 1
            return {"violations": viol, "cov": cov, "shape": "builds", "digest": "builds", "steps": n * 8,
                    "evaluations": cov.get("build_scenarios_compared", 0),
                    "probes": {"real_parallel_builds_compared": cov.get("build_scenarios_compared", 0)}}
        finally:
            import shutil

            shutil.rmtree(tmp, ignore_errors=True)

    # -----------------------------------------------------------------------------------------------------------
    def simplify(self, sc):
        if sc["harness"] == "history":
            for i in range(len(sc["ops"]) - 1, -1, -1):
                c = copy.deepcopy(sc)
                del c["ops"][i]
                if c["ops"]:
                    yield c
            for pi, p in enumerate(sc["programs"]):
                for i in range(len(p["program"]) - 1, -1, -1):
                    if programs.kind_of(p["program"][i][0]) in ("matching_cost", "disparity"):
                        continue
                    c = copy.deepcopy(sc)
                    del c["programs"][pi]["program"][i]
                    yield c
            for wi, w in enumerate(sc["worlds"]):
                for side in ("mask_left", "mask_right"):
                    if w.get(side):
                        c = copy.deepcopy(sc)
                        c["worlds"][wi][side] = None
                        yield c
        elif sc["harness"] == "kernel":
            for c in pipeline.simplify_pipeline({"world": sc["world"], "program": sc["program"]}):
                d = copy.deepcopy(sc)
                d["world"], d["program"] = c["world"], c["program"]
                yield d
            if len(sc["schedules"]) > 1:
                for i in range(len(sc["schedules"])):
                    d = copy.deepcopy(sc)
                    d["schedules"] = [sc["schedules"][i]]
                    yield d
            if sc["threads"] > 2:
                d = copy.deepcopy(sc)
                d["threads"] = 2
                yield d
        elif sc["harness"] == "builds":
            for i in range(len(sc["scenarios"])):
                d = copy.deepcopy(sc)
                d["scenarios"] = [sc["scenarios"][i]]
                yield d

    def finish(self, stats):
        cov = stats["cov"]
        fid = {}
        for k, v in cov.items():
            if k.startswith(("fidelity_ok:", "fidelity_mismatch:")):
                kind, q = k.split(":", 1)
                fid.setdefault(q, {"fidelity_ok": 0, "fidelity_mismatch": 0})[kind] += v
        bad = {q: d for q, d in fid.items()
               if d["fidelity_mismatch"] > 0.2 * (d["fidelity_ok"] + d["fidelity_mismatch"]) and d["fidelity_mismatch"] >= 3}
        out = {"simulated_vs_compiled_kernel": fid}
        if bad:
            out["__harness_error__"] = f"simulated kernels disagree with the compiled ones too often: {bad}"
        return out

    def describe(self):
        return {
            "rule": "three scenario families: (kernel) a seeded pipeline is run compiled with capture wrappers on the nine "
            "prange kernels, then each captured call is re-executed from the kernel's own Python source under the "
            "sequential schedule and under seeded schedules (uniform / perm / pct / lockstep, 2-4 threads, static or "
            "random partition); (history) 3..15 operations over 1..4 machine objects, 1..3 programs, 1..2 worlds; "
            "(builds) one batch of pipelines executed in 8 separate interpreters. evaluations = schedules executed + "
            "asserted runs + build scenarios compared; distinct = distinct (kernel, argument shapes) / (operation "
            "sequence, step kinds).",
            "assumptions": [
                "memory model of the simulated schedules: sequential consistency at statement granularity plus a split "
                "between load and store of every `a[i] op= v`; scalar op= on a pre-loop name is a numba reduction",
                "the sequential simulated output must agree with the compiled kernel within 1e-5 (fidelity; a "
                "disagreement is a harness error, not a verdict); schedule-independence itself is bit-exact",
                "assertions on a run are made for a fresh machine or one that only checked/ran that pipeline; other "
                "machines, pipelines, classes, rejected checks and aborted runs are interference",
                "real numba thread interleavings (part c) are sampled, not steered; across the parallel switch only the "
                "disparity map and the pre-validation flag bits (0,1,2,6,7) are compared",
            ],
            "extra_coverage": {"strategies": STRATEGIES, "build_configs": [f"parallel={p} threads={t}" for p, t in BUILD_CONFIGS]},
        }


if __name__ == "__main__":
    sys.exit(harness.main(C18(), os.path.abspath(__file__)))
