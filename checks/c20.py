"""
C20 - reported margins are a pure, monotone function of the checked pipeline.   DESIGN.md §5 (C20)
The margins registry is machine state produced by the check-phase program; it is compared with a dictionary model after
check_conf on fresh machines, after a repeated check, without the validation steps (second round), for every prefix.
"""
import copy
import os
import sys

sys.path.insert(0, os.path.dirname(os.path.dirname(os.path.abspath(__file__))))
from sim import harness, programs, world, runner, stubs  # noqa: E402


def model_margins(prog, rows, cols, step):
    cum, non = {}, {}
    for name, p in prog:
        k = programs.kind_of(name)
        if k == "matching_cost":
            v = int((p.get("window_size", 5) - 1) / 2)
            cum[name] = v
        elif k == "optimization":
            cum[name] = 40
        elif k in ("aggregation", "disparity", "refinement"):
            cum[name] = 0
        elif k == "filter":
            m = p["filter_method"]
            if m in ("median", "median_for_intervals"):
                non[name] = p.get("filter_size", 3) * step
            elif m == "bilateral":
                non[name] = min(rows, cols, int(3 * p.get("sigma_space", 6.0) + 1)) * step
            elif m in stubs.LOPSIDED:
                non[name] = stubs.LOPSIDED[m]
    total = sum(cum.values())
    sides = ("left", "up", "right", "down")

    def d(v):
        return dict(zip(sides, v)) if isinstance(v, tuple) else {k: v for k in sides}

    # per side: the larger of the cumulated sum and each non-cumulative margin
    g = tuple(max([total] + [d(v)[k] for v in non.values()]) for k in sides)

    return {
        "cumulative margins": {k: d(v) for k, v in cum.items()},
        "non-cumulative margins": {k: d(v) for k, v in non.items()},
        "global margins": d(g),
    }


class C20:
    prop = "C20"
    level = "exploration"
    budgets = {"quick": 3000, "thorough": 150000}
    no_warm = True  # check-phase only: no numba kernel is executed

    def generate(self, rnd, index, tier):
        kinds = programs.gen_legal_kinds(rnd, max_cv=3, max_dm=5, end_in_dispmap=False, multiscale=rnd.random() < 0.15)
        multiscale = "multiscale" in kinds
        bands = 1 if ("aggregation" in kinds or multiscale or rnd.random() < 0.7) else rnd.choice([2, 3])
        w = world.gen_world(rnd, rows=rnd.randint(4, 30), cols=rnd.randint(4, 30), bands=bands, masks=False,
                            disp="scalar", georef=False)
        step = rnd.choice([1, 1, 1, 2, 3, 5])
        if "optimization" in kinds:
            step = 1  # the optimisation check refuses step != 1
        ov = {
            "matching_cost": lambda r, ww: {**programs.p_matching_cost(r, ww), "window_size": r.choice([1, 3, 5, 7, 9, 11])},
            "filter": lambda r, ww: programs.p_filter(r, ww, methods=("median", "bilateral", "median_for_intervals")),
        }
        prog = programs.build_program(rnd, w, kinds, overrides=ov, suffix_only_p=0.15 if rnd.random() < 0.3 else 0.0,
                                      allow_multi_dot=rnd.random() < 0.2)
        if rnd.random() < 0.25:
            # plugin filters whose margins differ from side to side
            for st in prog:
                if programs.kind_of(st[0]) == "filter" and rnd.random() < 0.7:
                    st[1].clear()
                    st[1]["filter_method"] = rnd.choice(sorted(stubs.LOPSIDED))
        mc = prog[0][1]
        if mc["matching_cost_method"] == "census":
            mc["window_size"] = rnd.choice([3, 5])
        if step != 1:
            mc["step"] = step
        elif rnd.random() < 0.3:
            mc["step"] = 1
        return {"harness": "check-history", "world": w, "program": prog, "step": step}

    def execute(self, sc):
        w, prog, step = sc["world"], sc["program"], sc["step"]
        stubs.pandora2d_entry(step != 1)
        stubs.register_lopsided_filters()
        ds = {"meta_left": world.build_meta(w, "left"), "meta_right": world.build_meta(w, "right")}
        names = [n for n, _ in prog]
        kinds = [programs.kind_of(n) for n in names]
        viol = []
        cov = {}

        def checked_margins(program, machine=None):
            m = machine
            if m is None:
                m, _ = runner.new_machine(instrumented=False)
            ok, out = runner.do_check(m, programs.to_cfg(program), ds)
            return ok, out, m

        ok, out, machine = checked_margins(prog)
        if not ok:
            sig = runner.exc_sig(out)
            cov["skipped:check:" + sig["exception"] + "@" + sig["where"]] = 1
            return {"violations": [], "cov": cov, "shape": harness.jdump(kinds), "evaluations": 0}
        got = machine.margins.to_dict()
        exp = model_margins(prog, w["rows"], w["cols"], step)
        if got != exp:
            diff = {k: [got.get(k), exp.get(k)] for k in exp if got.get(k) != exp.get(k)}
            viol.append({"class": "C20.margins_differ_from_model", "sig": {"part": sorted(diff)}, "diff": diff,
                         "names": names})
        if list(got["cumulative margins"]) != list(exp["cumulative margins"]):
            viol.append({"class": "C20.cumulative_keys_order", "sig": {}})
        for part in got.values():
            vals = part.values() if all(isinstance(v, dict) for v in part.values()) else [part]
            for d in vals:
                if any(v < 0 for v in d.values()):
                    viol.append({"class": "C20.negative_margin", "sig": {}})
        # repeat on the same machine
        ok2, _, _ = checked_margins(prog, machine)
        if not ok2 or machine.margins.to_dict() != got:
            viol.append({"class": "C20.repeat_check_changes_margins", "sig": {"ok": ok2}})
        # second checking round has no effect: same program without its validation steps
        if "validation" in kinds:
            noval = [s for s in prog if programs.kind_of(s[0]) != "validation"]
            ok3, _, m3 = checked_margins(noval)
            if ok3 and m3.margins.to_dict() != got:
                viol.append({"class": "C20.second_round_changes_margins", "sig": {}})
            cov["second_round_compared"] = 1
        # monotone over prefixes and over single-step removal
        prev = None
        for i in range(1, len(prog) + 1):
            okp, _, mp = checked_margins(prog[:i])
            if not okp:
                break
            g = mp.margins.to_dict()["global margins"]
            if prev is not None and any(g[s] < prev[s] for s in g):
                viol.append({"class": "C20.not_monotone", "sig": {"added": kinds[i - 1]}, "before": prev, "after": g})
                break
            prev = g
            cov["prefixes_checked"] = cov.get("prefixes_checked", 0) + 1
        for i in range(1, len(prog)):
            if kinds[i] == "disparity":
                continue
            sub = prog[:i] + prog[i + 1:]
            oks, _, ms = checked_margins(sub)
            if oks:
                g = ms.margins.to_dict()["global margins"]
                if any(got["global margins"][s] < g[s] for s in g):
                    viol.append({"class": "C20.not_monotone", "sig": {"added": kinds[i]}, "before": g,
                                 "after": got["global margins"]})
                    break
        stubs.pandora2d_entry(False)
        noncum_wins = bool(exp["non-cumulative margins"]) and exp["global margins"]["left"] > sum(
            v["left"] for v in exp["cumulative margins"].values())
        return {
            "violations": viol,
            "cov": cov,
            "shape": harness.jdump([kinds, step, [p.get("filter_method") for n, p in prog if "filter_method" in p]]),
            "digest": harness.jdump(got),
            "steps": len(prog),
            "probes": {
                "step_gt_1": int(step != 1),
                "non_cumulative_wins": int(noncum_wins),
                "bilateral_clamped_by_image": int(any(
                    p.get("filter_method") == "bilateral"
                    and min(w["rows"], w["cols"]) < int(3 * p.get("sigma_space", 6.0) + 1) for _, p in prog)),
                "validation_present": int("validation" in kinds),
                "optimization_present": int("optimization" in kinds),
                "lopsided_plugin_margins": int(any(p.get("filter_method") in stubs.LOPSIDED for _, p in prog)),
                "suffix_only_name": int(any(k not in names for k in kinds)),
            },
        }

    def simplify(self, sc):
        prog = sc["program"]
        for i in range(len(prog) - 1, 0, -1):
            c = copy.deepcopy(sc)
            del c["program"][i]
            if programs.dfa_accepts([n for n, _ in c["program"]]):
                yield c
        if sc["step"] != 1:
            c = copy.deepcopy(sc)
            c["step"] = 1
            c["program"][0][1].pop("step", None)
            yield c

    def describe(self):
        return {
            "rule": "scenario = (image size, accepted program with suffixes/parameters, matching-cost step value); "
            "distinct = distinct (step-kind sequence, step value, filter methods); each is non-trivial: the registry of "
            "the real machine was compared with the dictionary model, re-checked, compared without validation steps, "
            "and checked for monotonicity over every prefix and single-step removal.",
            "assumptions": ["step > 1 is unlocked with the dummy sys.modules['pandora2d'] entry, as the repo's tests do",
                            "optimization served by the identity stub (real UniformMargins(40) descriptor)"],
        }


if __name__ == "__main__":
    sys.exit(harness.main(C20(), os.path.abspath(__file__)))
