"""
C05 - configuration checking completes, preserves and polices every parameter.   DESIGN.md §5 (C05)
Histories of class-level, pipeline-level, input-section and whole-configuration checks in ONE process (the step classes
share class-level schema dicts, check_input_section mutates a module-level schema dict), compared operation by
operation with a table model; every op is also executed alone in a fork of the pristine state and must give the same
answer.
"""
import copy
import json
import math
import os
import sys

sys.path.insert(0, os.path.dirname(os.path.dirname(os.path.abspath(__file__))))
from sim import harness, programs, world, runner, files  # noqa: E402

# ---------------------------------------------------------------------------------------------------------------
# parameter table: per (kind, method): {param: (default or NODEF, valid pool, invalid pool)}
NODEF = "__no_default_named__"
T = {
    ("matching_cost", "sad"): {"window_size": (5, [1, 3, 5, 7, 9, 11], [2, 4, 0, -1, -3, 6, "5", 5.0]),
                               "subpix": (1, [1, 2, 4, 6, 8], [0, -2, 3, 5, "2", 2.0]),
                               "step": (NODEF, [1], [2, 3, 0])},
    ("matching_cost", "census"): {"window_size": (5, [3, 5], [1, 7, 4, 9, 0]),
                                  "subpix": (1, [1, 2, 4], [0, -2, 3, "2"]),
                                  "step": (NODEF, [1], [2, 5])},
    ("aggregation", "cbca"): {"cbca_intensity": (30.0, [0.5, 1.0, 30.0, 100.0], [0.0, -1.0, 30, "30.0"]),
                              "cbca_distance": (5, [1, 2, 5, 10], [0, -1, 2.0, "3"])},
    ("disparity", "wta"): {"invalid_disparity": (-9999, [-9999, 0, 5, 0.5, -31.5, "NaN"], [None, "foo"])},
    ("filter", "median"): {"filter_size": (3, [1, 3, 5, 7], [0, 2, 4, -3, 3.0, "3"])},
    ("filter", "bilateral"): {"sigma_color": (2.0, [0.1, 1.0, 2.0, 6.0], [0.0, -1.0, 2, "2.0"]),
                              "sigma_space": (6.0, [0.1, 1.0, 2.0, 6.0], [0.0, -2.5, 6, "6.0"])},
    ("filter", "median_for_intervals"): {"filter_size": (3, [1, 3, 5], [0, 2, -1, 3.0]),
                                         "ambiguity_threshold": (NODEF, [0.0, 0.3, 0.6, 1.0], [-0.1, 1.5]),
                                         "quantile_regularization": (NODEF, [0.0, 0.5, 1.0], [-0.5, 1.1]),
                                         "ambiguity_kernel_size": (NODEF, [1, 3, 5], [0, 2, -1]),
                                         "vertical_depth": (NODEF, [0, 1, 2], [-1])},
    ("refinement", "vfit"): {},
    ("refinement", "quadratic"): {},
    ("cost_volume_confidence", "ambiguity"): {"eta_max": (0.7, [0.1, 0.5, 0.7, 0.99], [0.0, -0.1, 1]),
                                              "eta_step": (0.01, [0.01, 0.05, 0.1, 0.5], [0.0, -0.01, 1]),
                                              "normalization": (NODEF, [True, False], ["yes"])},
    ("cost_volume_confidence", "risk"): {"eta_max": (0.7, [0.1, 0.5, 0.7, 0.99], [0.0, -0.1]),
                                         "eta_step": (0.01, [0.01, 0.05, 0.1], [0.0, -0.01])},
    ("cost_volume_confidence", "std_intensity"): {},
    ("cost_volume_confidence", "interval_bounds"): {"possibility_threshold": (NODEF, [0.0, 0.5, 0.9, 1.0],
                                                                              [-0.1, 1.5, "0.9"]),
                                                    "ambiguity_threshold": (NODEF, [0.0, 0.3, 0.6, 1.0], [-0.1, 1.5]),
                                                    "quantile_regularization": (NODEF, [0.0, 0.5, 0.9, 1.0], [-0.5, 1.1]),
                                                    "ambiguity_kernel_size": (NODEF, [1, 3, 5, 7], [0, 2, -1, 3.0]),
                                                    "vertical_depth": (NODEF, [0, 1, 2], [-1, 1.0]),
                                                    "regularization": (NODEF, [True, False], ["yes"])},
    ("validation", "cross_checking_accurate"): {"cross_checking_threshold": (1.0, [0, 1, 1.0, 0.5, 2], ["1", None]),
                                                "interpolated_disparity": (NODEF, ["mc-cnn", "sgm"], ["foo", 3])},
    ("multiscale", "fixed_zoom_pyramid"): {"num_scales": (2, [2, 3, 5], [1, 0, -1, 2.0]),
                                           "scale_factor": (2, [2, 3], [1, 0, 2.0]),
                                           "marge": (1, [0, 1, 3], [-1, 1.5])},
}
for m in ("ssd", "zncc"):
    T[("matching_cost", m)] = T[("matching_cost", "sad")]
METHOD_KEY = {"matching_cost": "matching_cost_method", "aggregation": "aggregation_method",
              "disparity": "disparity_method", "filter": "filter_method", "refinement": "refinement_method",
              "cost_volume_confidence": "confidence_method", "validation": "validation_method",
              "multiscale": "multiscale_method"}
OPTIONAL_NO_DEFAULT = {"interpolated_disparity"}


def jsonable(v):
    if isinstance(v, float) and math.isnan(v):
        return "NaN"
    return v


def gen_step_cfg(rnd, kind, method, p_bad=0.3, world_bands=1, band=None):
    """returns (cfg, bad) where bad = None or [param, value]"""
    table = T[(kind, method)]
    cfg = {METHOD_KEY[kind]: method}
    keys = list(table)
    rnd.shuffle(keys)
    for k in keys:
        default, valid, invalid = table[k]
        if rnd.random() < 0.55:
            cfg[k] = rnd.choice(valid)
    if kind == "matching_cost" and band is not None:
        cfg["band"] = band
    bad = None
    r = rnd.random()
    if r < p_bad and table:
        k = rnd.choice(list(table))
        val = rnd.choice(table[k][2])
        cfg[k] = val
        bad = [k, jsonable(val)]
    elif r < p_bad + 0.05:
        cfg[METHOD_KEY[kind]] = "no_such_method"
        bad = [METHOD_KEY[kind], "no_such_method"]
    # shuffle key order: position must be preserved
    items = list(cfg.items())
    rnd.shuffle(items)
    return dict(items), bad


def model_defaults(kind, method):
    return {k: v[0] for k, v in T[(kind, method)].items() if v[0] != NODEF}


def values_equal(a, b):
    if isinstance(a, float) and isinstance(b, float) and math.isnan(a) and math.isnan(b):
        return True
    return type(a) is type(b) and a == b


def check_completed(user, got, kind, method):
    """user keys keep value and position; named defaults appear. Returns reason or None."""
    ukeys = list(user)
    gkeys = list(got)
    if gkeys[: len(ukeys)] != ukeys:
        return f"user keys moved: {ukeys} -> {gkeys}"
    for k in ukeys:
        u, g = user[k], got[k]
        if u == "NaN":
            if not (isinstance(g, float) and math.isnan(g)):
                return f"'NaN' not turned into a float for {k}: {g!r}"
            continue
        if u in ("inf", "-inf"):
            if not (isinstance(g, float) and g == float(u)):
                return f"{u!r} not turned into a float for {k}: {g!r}"
            continue
        if not values_equal(u, g):
            return f"user value changed for {k}: {u!r} -> {g!r}"
    for k, d in model_defaults(kind, method).items():
        if k not in user:
            if k not in got:
                return f"default missing for {k}"
            if not values_equal(d, got[k]):
                return f"default of {k} is {got[k]!r}, documented {d!r}"
    return None


# ---------------------------------------------------------------------------------------------------------------
# operations


def op_class_check(op, env):
    """AbstractX(**cfg) for one step; returns ('accept', cfg) / ('reject', exc)"""
    from pandora import aggregation, disparity, filter as pfilter, multiscale, refinement, matching_cost, validation
    from pandora import cost_volume_confidence

    kind, cfg = op["kind"], copy.deepcopy(op["cfg"])
    cfg = {k: (float("nan") if False else v) for k, v in cfg.items()}
    user_before = copy.deepcopy(cfg)
    try:
        if kind == "matching_cost":
            o = matching_cost.AbstractMatchingCost(**cfg)
        elif kind == "aggregation":
            o = aggregation.AbstractAggregation(**cfg)
        elif kind == "disparity":
            o = disparity.AbstractDisparity(**cfg)
        elif kind == "filter":
            o = pfilter.AbstractFilter(cfg=cfg, image_shape=(20, 20), step=1)
        elif kind == "refinement":
            o = refinement.AbstractRefinement(**cfg)
        elif kind == "cost_volume_confidence":
            o = cost_volume_confidence.AbstractCostVolumeConfidence(**cfg)
        elif kind == "validation":
            o = validation.AbstractValidation(**cfg)
            if "interpolated_disparity" in o.cfg:
                validation.AbstractInterpolation(**cfg)
        elif kind == "multiscale":
            o = multiscale.AbstractMultiscale(env["meta_left"], env["meta_right"], **cfg)
        else:
            raise ValueError(kind)
        return "accept", o.cfg, user_before, cfg
    except Exception as e:  # noqa
        return "reject", e, user_before, cfg


def render(v):
    return runner.canon_cfg(v)


class C05:
    prop = "C05"
    level = "exploration"
    budgets = {"quick": 2500, "thorough": 120000}
    no_warm = True

    # -----------------------------------------------------------------------------------------------------------
    def generate(self, rnd, index, tier):
        bands = 1 if rnd.random() < 0.7 else 3
        w = world.gen_world(rnd, rows=rnd.randint(12, 20), cols=rnd.randint(12, 20), bands=bands, masks=rnd.random() < 0.3,
                            disp="scalar" if rnd.random() < 0.6 else "grid", right_disp=rnd.random() < 0.5, georef=False)
        ops = []
        n = rnd.randint(2, 12)
        # seeded visiting order biased to alternate the classes that share one schema dict
        mc_cycle = rnd.sample(["sad", "census", "zncc", "ssd"], 4)
        for i in range(n):
            r = rnd.random()
            if r < 0.55:
                kind = rnd.choice(["matching_cost", "matching_cost", "matching_cost", "aggregation", "disparity",
                                   "filter", "filter", "refinement", "cost_volume_confidence", "validation",
                                   "multiscale"])
                if kind == "matching_cost":
                    method = mc_cycle[i % 4] if rnd.random() < 0.7 else rnd.choice(mc_cycle)
                else:
                    if kind == "multiscale" and w["disp"]["kind"] == "grid":
                        kind = "refinement"  # multiscale refuses disparity grids whatever its parameters
                    method = rnd.choice([m for (k, m) in T if k == kind])
                cfg, bad = gen_step_cfg(rnd, kind, method)
                ops.append({"op": "class", "kind": kind, "method": method, "cfg": cfg, "bad": bad})
            elif r < 0.8:
                ops.append(self.gen_pipeline_op(rnd, w))
            elif r < 0.9:
                ops.append(self.gen_input_op(rnd, w))
            else:
                pp = self.gen_pipeline_op(rnd, w, p_bad=0.2)
                if pp.pop("band_sets", None):
                    pp["bad"] = None  # whole-configuration checks read both images from files with identical bands
                ops.append({"op": "full", "pipeline": pp, "input": self.gen_input_op(rnd, w, p_bad=0.15)})
        # in some histories the pipeline-level checks share ONE machine object (until a check is rejected)
        return {"harness": "check-history", "world": w, "ops": ops, "shared_machine": rnd.random() < 0.35}

    def gen_pipeline_op(self, rnd, w, p_bad=0.35):
        kinds = programs.gen_legal_kinds(rnd, max_cv=2, max_dm=3, allow=[k for k in programs.KINDS if k not in
                                                                          ("optimization", "semantic_segmentation")],
                                         multiscale=w["disp"]["kind"] == "scalar" and rnd.random() < 0.2)
        if w["bands"] > 1:
            kinds = [k for k in kinds if k != "aggregation"]
        if w["disp"]["kind"] == "grid" and not w.get("disp_right"):
            kinds = [k for k in kinds if k != "validation"]
        names = programs.name_steps(rnd, kinds)
        bad_i = rnd.randrange(len(kinds)) if rnd.random() < p_bad else None
        steps, bad = [], None
        band_names = (w.get("band_names") or world.BAND_NAMES)[: w["bands"]]
        for i, (k, n) in enumerate(zip(kinds, names)):
            method = rnd.choice([m for (kk, m) in T if kk == k])
            band = rnd.choice(band_names) if (k == "matching_cost" and w["bands"] > 1) else None
            cfg, b = gen_step_cfg(rnd, k, method, p_bad=1.0 if i == bad_i else 0.0, band=band)
            if k == "matching_cost" and bad_i is None and rnd.random() < 0.12:
                # band absent from the image (multiband: unknown name or no band at all; monoband: any name)
                bad_i = -1
                if w["bands"] > 1 and rnd.random() < 0.4:
                    cfg.pop("band", None)
                    b = ["band", "missing"]
                else:
                    cfg["band"] = "no_such_band"
                    b = ["band", "no_such_band"]
            if k == "disparity" and b is None and rnd.random() < 0.2:
                # strings turned into floats by the pipeline-level completion
                cfg["invalid_disparity"] = rnd.choice(["inf", "-inf", "NaN"])
            if b is not None:
                bad = [n] + b
            steps.append([n, k, method, cfg])
        op = {"op": "pipeline", "steps": steps, "bad": bad}
        if w["bands"] > 1 and bad is None and rnd.random() < 0.2:
            # the two images do not carry the same bands: the selected band exists in one image only
            mc = steps[0][3]
            others = [x for x in band_names if x != mc.get("band")]
            op["band_sets"] = {rnd.choice(["left", "right"]): others + ["zz"]}
            op["bad"] = [steps[0][0], "band", "absent from one image"]
        return op

    def gen_input_op(self, rnd, w, p_bad=0.3):
        ov = {}
        bad = None
        side = rnd.choice(["left", "right"])
        r = rnd.random()
        if r < 0.25:
            ov[side + ".nodata"] = rnd.choice(["NaN", -9999, 0, 255])
        if rnd.random() < 0.5:
            ov["omit_nodata"] = rnd.choice(["left", "right", "both"])
        if rnd.random() < p_bad:
            which = rnd.choice(["nodata_float", "nodata_str", "disp_reversed", "disp_str_ints", "img_int", "mask_int"])
            bad = [which]
            ov["bad"] = which
        return {"op": "input", "ov": ov, "bad": bad}

    # -----------------------------------------------------------------------------------------------------------
    def build_input(self, op, env):
        inp = copy.deepcopy(env["input"])
        ov = op["ov"]
        for side in ("left", "right"):
            if side + ".nodata" in ov:
                inp[side]["nodata"] = ov[side + ".nodata"]
        om = ov.get("omit_nodata")
        for side in ("left", "right"):
            if om in (side, "both") and side + ".nodata" not in ov:
                inp[side].pop("nodata", None)
        bad = ov.get("bad")
        if bad == "nodata_float":
            inp["left"]["nodata"] = 3.5
        elif bad == "nodata_str":
            inp["right"]["nodata"] = "nodata"
        elif bad == "disp_reversed":
            if isinstance(inp["left"]["disp"], list):
                inp["left"]["disp"] = [inp["left"]["disp"][1] + 1, inp["left"]["disp"][0]]
            else:
                inp["left"]["disp"] = [3, -3]
        elif bad == "disp_str_ints":
            inp["left"]["disp"] = [-2.5, 2.5]
            inp["right"].pop("disp", None)
        elif bad == "img_int":
            inp["left"]["img"] = 5
        elif bad == "mask_int":
            inp["right"]["mask"] = 7
        return {"input": inp}

    def exec_op(self, op, env):
        """returns canonical result dict: {'verdict','result','problems':[...] }"""
        from pandora import check_configuration as cc

        problems = []
        if op["op"] == "class":
            verdict, out, before, after_user = op_class_check(op, env)
            exp = "reject" if op["bad"] else "accept"
            res = None
            if verdict == "accept":
                res = render(out)
                r = check_completed(op["cfg"], out, op["kind"], op["method"])
                if r:
                    problems.append(("completion", r))
                # idempotence
                v2, out2, _, _ = op_class_check({"kind": op["kind"], "cfg": copy.deepcopy(dict(out))}, env)
                if v2 != "accept" or render(out2) != res:
                    problems.append(("idempotence", f"second check: {v2}"))
            return {"verdict": verdict, "expected": exp, "result": res, "problems": problems,
                    "exc": None if verdict == "accept" else type(out).__name__}
        if op["op"] == "pipeline":
            user = {"pipeline": {n: copy.deepcopy(cfg) for n, k, m, cfg in op["steps"]}}
            before = copy.deepcopy(user)
            if env.get("shared") is not None and env["shared"].get("machine") is not None:
                m = env["shared"]["machine"]
            else:
                m, _ = runner.new_machine(instrumented=False)
                if env.get("shared") is not None:
                    env["shared"]["machine"] = m
            metas = {"left": env["meta_left"], "right": env["meta_right"]}
            for side_, names_ in (op.get("band_sets") or {}).items():
                metas[side_] = metas[side_].assign_coords(band_im=list(names_))
            try:
                out = cc.check_pipeline_section(user, metas["left"], metas["right"], m)
                verdict = "accept"
            except Exception as e:  # noqa
                out, verdict = e, "reject"
            if render(user) != render(before):
                problems.append(("user_dict_mutated", ""))
            exp = "reject" if op["bad"] else "accept"
            res = None
            if env.get("shared") is not None:
                if verdict == "accept":
                    env["shared"]["returned"].append((out, render(out)))
                else:
                    env["shared"]["machine"] = None  # a rejected check leaves the machine in an undefined state
            if verdict == "accept":
                res = render(out)
                if list(out["pipeline"]) != [s[0] for s in op["steps"]]:
                    problems.append(("completion", "step order changed"))
                else:
                    for n, k, meth, cfg in op["steps"]:
                        r = check_completed(cfg, out["pipeline"][n], k, meth)
                        if r:
                            problems.append(("completion", f"{n}: {r}"))
                            break
                m2, _ = runner.new_machine(instrumented=False)
                try:
                    out2 = cc.check_pipeline_section(copy.deepcopy(out), env["meta_left"], env["meta_right"], m2)
                    if render(out2) != res:
                        problems.append(("idempotence", "re-check differs"))
                except Exception as e:  # noqa
                    problems.append(("idempotence", f"re-check raised {type(e).__name__}"))
            return {"verdict": verdict, "expected": exp, "result": res, "problems": problems,
                    "exc": None if verdict == "accept" else type(out).__name__}
        if op["op"] in ("input", "full"):
            iop = op if op["op"] == "input" else op["input"]
            user = self.build_input(iop, env)
            bad = iop["bad"]
            if op["op"] == "full":
                user["pipeline"] = {n: copy.deepcopy(cfg) for n, k, m, cfg in op["pipeline"]["steps"]}
                bad = bad or op["pipeline"]["bad"]
            before = copy.deepcopy(user)
            try:
                if op["op"] == "input":
                    out = cc.check_input_section(user)
                else:
                    m, _ = runner.new_machine(instrumented=False)
                    out = cc.check_conf(user, m)
                verdict = "accept"
            except Exception as e:  # noqa
                out, verdict = e, "reject"
            if render(user) != render(before):
                problems.append(("user_dict_mutated", ""))
            exp = "reject" if bad else "accept"
            res = None
            if verdict == "accept":
                res = render(out)
                for side in ("left", "right"):
                    u = user["input"][side]
                    g = out["input"][side]
                    if list(g)[: len(u)] != list(u) and False:
                        problems.append(("completion", f"input.{side} keys moved"))
                    if "nodata" not in u:
                        if g.get("nodata") != -9999:
                            problems.append(("completion", f"input.{side}.nodata default is {g.get('nodata')!r}"))
                    elif u["nodata"] == "NaN":
                        if not (isinstance(g["nodata"], float) and math.isnan(g["nodata"])):
                            problems.append(("completion", "'NaN' nodata not turned into a float"))
                    elif not values_equal(u["nodata"], g["nodata"]):
                        problems.append(("completion", f"input.{side}.nodata changed"))
                    for k in ("img", "disp", "mask"):
                        if k in u and u[k] != g.get(k):
                            problems.append(("completion", f"input.{side}.{k} changed"))
                if op["op"] == "full":
                    for n, k, meth, cfg in op["pipeline"]["steps"]:
                        r = check_completed(cfg, out["pipeline"][n], k, meth)
                        if r:
                            problems.append(("completion", f"{n}: {r}"))
                            break
                try:
                    if op["op"] == "input":
                        out2 = cc.check_input_section(copy.deepcopy({"input": out["input"]}))
                    else:
                        m2, _ = runner.new_machine(instrumented=False)
                        out2 = cc.check_conf(copy.deepcopy(out), m2)
                    if render(out2) != res:
                        problems.append(("idempotence", "re-check differs"))
                except Exception as e:  # noqa
                    problems.append(("idempotence", f"re-check raised {type(e).__name__}"))
            return {"verdict": verdict, "expected": exp, "result": res, "problems": problems,
                    "exc": None if verdict == "accept" else type(out).__name__}
        raise ValueError(op["op"])

    def solo(self, op, env):
        """the same operation executed alone in a fork of the current (pristine) state"""
        r, wfd = os.pipe()
        pid = os.fork()
        if pid == 0:
            try:
                os.close(r)
                try:
                    res = self.exec_op(op, env)
                    out = {"verdict": res["verdict"], "result": res["result"]}
                except BaseException as e:  # noqa
                    out = {"verdict": "harness", "result": repr(e)}
                with os.fdopen(wfd, "w") as f:
                    f.write(harness.jdump(out))
            finally:
                os._exit(0)
        os.close(wfd)
        with os.fdopen(r) as f:
            data = f.read()
        os.waitpid(pid, 0)
        return json.loads(data) if data else {"verdict": "harness", "result": "no output"}

    def execute(self, sc):
        w = sc["world"]
        tmp = files.scratch_dir("verif_c05_")
        try:
            env = {"meta_left": world.build_meta(w, "left"), "meta_right": world.build_meta(w, "right"),
                   "input": files.write_world(w, tmp)}
            viol, cov, shapes = [], {}, []
            solos = [self.solo(op, env) for op in sc["ops"]]
            if sc.get("shared_machine"):
                env["shared"] = {"machine": None, "returned": []}
            for i, op in enumerate(sc["ops"]):
                res = self.exec_op(op, env)
                for obj, rendered in (env.get("shared") or {}).get("returned", []):
                    if render(obj) != rendered:
                        viol.append({"class": "C05.returned_configuration_changed_later",
                                     "sig": {"op": op["op"]}, "index": i})
                        env["shared"]["returned"] = []
                        break
                cov["ops"] = cov.get("ops", 0) + 1
                cov["op_" + op["op"]] = cov.get("op_" + op["op"], 0) + 1
                cov[res["verdict"]] = cov.get(res["verdict"], 0) + 1
                desc = {"op": op["op"], "kind": op.get("kind"), "method": op.get("method")}
                badd = op.get("bad") or (op.get("input", {}).get("bad") if op["op"] == "full" else None) or \
                    (op.get("pipeline", {}).get("bad") if op["op"] == "full" else None)
                if res["verdict"] != res["expected"]:
                    viol.append({"class": "C05.verdict", "sig": {**desc, "expected": res["expected"],
                                                                 "bad": badd, "exc": res["exc"]}, "index": i,
                                 "cfg": op.get("cfg")})
                for kind_, detail in res["problems"]:
                    viol.append({"class": "C05." + kind_, "sig": {**desc, "detail": detail[:80]}, "index": i})
                s = solos[i]
                if s["verdict"] == "harness":
                    raise RuntimeError("solo execution failed: " + str(s["result"]))
                if s["verdict"] != res["verdict"] or s["result"] != json.loads(harness.jdump(res["result"])):
                    viol.append({"class": "C05.depends_on_history", "sig": {**desc, "solo": s["verdict"],
                                                                            "in_history": res["verdict"]},
                                 "index": i, "history": [o.get("method") or o["op"] for o in sc["ops"][:i]]})
                shapes.append(harness.jdump([op["op"], op.get("kind"), op.get("method"), badd]))
            seq = [o.get("method") or o["op"] for o in sc["ops"]]
            mc = [o.get("method") for o in sc["ops"] if o.get("kind") == "matching_cost"]
            return {
                "violations": viol,
                "cov": cov,
                "shapes": shapes,
                "digest": harness.jdump(seq),
                "steps": len(sc["ops"]),
                "evaluations": len(sc["ops"]),
                "probes": {
                    "matching_cost_classes_alternated": int(len(set(mc)) >= 2),
                    "census_then_sad_or_zncc": int(any(a == "census" and b in ("sad", "ssd", "zncc")
                                                       for a, b in zip(mc, mc[1:]))),
                    "input_forms_alternated": int(sum(1 for o in sc["ops"] if o["op"] in ("input", "full")) >= 2),
                    "history_len_ge_8": int(len(sc["ops"]) >= 8),
                    "pipeline_checks_share_one_machine": int(bool(sc.get("shared_machine"))),
                    "rejected_op_then_more_ops": int(any(o.get("bad") for o in sc["ops"][:-1])),
                },
            }
        finally:
            files.cleanup(tmp)

    def simplify(self, sc):
        for i in range(len(sc["ops"]) - 1, -1, -1):
            c = copy.deepcopy(sc)
            del c["ops"][i]
            if c["ops"]:
                yield c
        for i, op in enumerate(sc["ops"]):
            if op["op"] == "class":
                for k in list(op["cfg"]):
                    if k.endswith("_method") or (op["bad"] and k == op["bad"][0]):
                        continue
                    c = copy.deepcopy(sc)
                    del c["ops"][i]["cfg"][k]
                    yield c

    def describe(self):
        return {
            "rule": "scenario = history of 2..12 checks in one process (class-level checks of every built-in method, "
            "pipeline sections, input sections, whole configurations with scratch rasters), parameters drawn on and "
            "around the domain edges and of the wrong type, key order shuffled; evaluations = operations executed; "
            "distinct = distinct (operation kind, step kind, method, offending parameter/value) tuples; each operation is "
            "compared with the table model, re-checked (idempotence), compared with its user dict before/after and with "
            "the same operation executed alone in a fork of the pristine process.",
            "assumptions": [
                "the table holds only the defaults and domains the statement names (plus the documented [0,1] range of "
                "possibility_threshold); values on which docs, statement and code disagree are never offered",
                "bool is never offered for an int parameter; an int offered for a float parameter counts as wrong type",
                "any exception counts as rejection",
            ],
        }


if __name__ == "__main__":
    sys.exit(harness.main(C05(), os.path.abspath(__file__)))
