"""
C01 - accepted pipelines are exactly the documented automaton and run as written.   DESIGN.md §5 (C01)

Programs (step-name sequences with suffixes) and histories of check/run operations on ONE machine object are generated
from the seed, executed against the real PandoraMachine, and compared operation by operation with the documented DFA
and the expected executed-step history.
"""
import copy
import random
import hashlib
import itertools
import os
import sys

sys.path.insert(0, os.path.dirname(os.path.dirname(os.path.abspath(__file__))))
from sim import harness, programs, world, runner, probes  # noqa: E402

ENUM = [seq for L in range(0, 4) for seq in itertools.product(programs.KINDS, repeat=L)]  # 1111 sequences

PLUGIN_METHOD = {
    "matching_cost": "compute_cost_volume",
    "aggregation": "cost_volume_aggregation",
    "optimization": "optimize_cv",
    "semantic_segmentation": "compute_semantic_segmentation",
    "cost_volume_confidence": "confidence_prediction",
    "disparity": "to_disp",
    "filter": "filter_disparity",
    "refinement": "subpixel_refinement",
    "validation": "disparity_checking",
    "multiscale": "disparity_range",
}

BAD_PARAMS = [
    ("matching_cost", {"window_size": 4}),
    ("matching_cost", {"subpix": 3}),
    ("matching_cost", {"matching_cost_method": "no_such_measure"}),
    ("matching_cost", {"window_size": -3}),
    ("aggregation", {"cbca_distance": 0}),
    ("aggregation", {"aggregation_method": "no_such_aggregation"}),
    ("cost_volume_confidence", {"confidence_method": "no_such_confidence"}),
    ("disparity", {"disparity_method": "no_such_disparity"}),
    ("filter", {"filter_method": "no_such_filter"}),
    ("refinement", {"refinement_method": "no_such_refinement"}),
    ("validation", {"validation_method": "no_such_validation"}),
    ("multiscale", {"num_scales": 1}),
    ("multiscale", {"scale_factor": 1}),
    ("multiscale", {"multiscale_method": "no_such_multiscale"}),
    ("optimization", {"optimization_method": "no_such_optimization"}),
    ("semantic_segmentation", {"segmentation_method": "no_such_segmentation"}),
]


def benign_world(rnd, kinds):
    multiscale = "multiscale" in kinds
    bands = 1 if ("aggregation" in kinds or multiscale or rnd.random() < 0.75) else rnd.choice([2, 3])
    rows, cols = rnd.randint(8, 13), rnd.randint(10, 16)
    if multiscale:
        rows, cols = rnd.randint(40, 48), rnd.randint(40, 52)
    disp = "scalar" if (multiscale or rnd.random() < 0.75) else "grid"
    w = world.gen_world(rnd, rows=rows, cols=cols, bands=bands, masks=rnd.random() < 0.4, disp=disp, right_disp=True,
                        georef=False)
    if w["disp"]["kind"] == "scalar":
        lo = rnd.randint(-3, 0)
        w["disp"]["min"], w["disp"]["max"] = lo, lo + rnd.randint(1, 3)
    return w


def benign_program(rnd, w, kinds, names=None, suffix_only_p=0.0, multi_dot=False):
    ov = {
        # multiband + subpix > 1 makes sad/ssd raise AttributeError (shifted right images lose band_im): a C02 matter,
        # kept out of the benign C01 worlds
        "matching_cost": lambda r, ww: programs.p_matching_cost(
            r, ww, max_window=5, subpix=(1,) if ww["bands"] > 1 else (1, 2, 4)),
        "filter": lambda r, ww: programs.p_filter(r, ww, methods=("median", "bilateral")),
        "multiscale": lambda r, ww: {"multiscale_method": "fixed_zoom_pyramid", "num_scales": r.choice([2, 2, 3]),
                                      "scale_factor": 2, "marge": r.choice([0, 1])},
    }
    return programs.build_program(rnd, w, list(kinds), names=names, overrides=ov, suffix_only_p=suffix_only_p,
                                  allow_multi_dot=multi_dot)


def edit(rnd, kinds):
    kinds = list(kinds)
    op = rnd.choice(["swap", "delete", "insert", "dup", "subst"])
    if op == "swap" and len(kinds) >= 2:
        i = rnd.randrange(len(kinds) - 1)
        kinds[i], kinds[i + 1] = kinds[i + 1], kinds[i]
    elif op == "delete" and kinds:
        del kinds[rnd.randrange(len(kinds))]
    elif op == "insert":
        kinds.insert(rnd.randint(0, len(kinds)), rnd.choice(programs.KINDS))
    elif op == "dup" and kinds:
        i = rnd.randrange(len(kinds))
        kinds.insert(i, kinds[i])
    elif kinds:
        kinds[rnd.randrange(len(kinds))] = rnd.choice(programs.KINDS)
    return kinds


def expected_run_events(names, num_scales):
    """Model of the executed-step history: list of (scale_index_from_coarse, name) of *_run callbacks executed."""
    out = []
    for s in range(num_scales):
        last = s == num_scales - 1
        for n in names:
            k = programs.kind_of(n)
            if k == "multiscale":
                if last:
                    continue  # skipped on the last scale
                out.append((s, n))
                break
            out.append((s, n))
    return out


class C01:
    prop = "C01"
    level = "exploration"
    budgets = {"quick": 4000, "thorough": 60000}
    scenario_timeout = 300

    def generate(self, rnd, index, tier):
        n_enum = len(ENUM)
        if index < n_enum:
            kinds = list(ENUM[index])
            cls = "enum"
        else:
            r = rnd.random()
            if r < 0.50:
                long_ = rnd.random() < 0.12
                kinds = programs.gen_legal_kinds(rnd, end_in_dispmap=False, multiscale=rnd.random() < 0.25,
                                                 max_cv=5 if long_ else 3, max_dm=8 if long_ else 4)
                if long_ and rnd.random() < 0.5 and "disparity" in kinds:
                    # five or more steps of one kind
                    k_ = rnd.choice(["filter", "refinement"])
                    kinds = kinds + [k_] * rnd.randint(3, 5)
                cls = "legal"
            elif r < 0.75:
                kinds = edit(rnd, programs.gen_legal_kinds(rnd, end_in_dispmap=False, multiscale=rnd.random() < 0.25))
                cls = "edit"
            elif r < 0.87:
                kinds = [rnd.choice(programs.KINDS) for _ in range(rnd.randint(0, 10))]
                cls = "uniform"
            else:
                kinds = programs.gen_legal_kinds(rnd, end_in_dispmap=False)
                cls = "badparam"
        w = benign_world(rnd, kinds)
        suffix_only_p = 0.0
        multi_dot = False
        if cls in ("legal", "edit") and rnd.random() < 0.25:
            suffix_only_p = 0.5
        if cls in ("legal", "edit") and rnd.random() < 0.3:
            multi_dot = True
        prog = benign_program(rnd, w, kinds, suffix_only_p=suffix_only_p, multi_dot=multi_dot)
        if cls == "legal" and rnd.random() < 0.15:
            # consecutive steps of the same kind with exactly the same parameters
            for i_ in range(len(prog) - 1):
                if programs.kind_of(prog[i_][0]) == programs.kind_of(prog[i_ + 1][0]) and \
                        programs.kind_of(prog[i_][0]) in ("filter", "refinement", "cost_volume_confidence", "aggregation"):
                    prog[i_ + 1][1] = copy.deepcopy(prog[i_][1])
        bad = None
        if cls in ("legal", "edit") and prog and rnd.random() < 0.08:
            # a name that is a documented kind followed by something else than '.suffix' is not a step name
            i_ = rnd.randrange(len(prog))
            k_ = programs.kind_of(prog[i_][0])
            prog[i_][0] = k_ + rnd.choice(["2", "-bis", " 1", ":left", "_", "X", "..", ""]) if rnd.random() < 0.8 else k_.capitalize()
            if prog[i_][0] == k_ and k_ in [n for j_, (n, _) in enumerate(prog) if j_ != i_]:
                prog[i_][0] = k_ + "2"
            cls = "badname"
        if cls == "badparam":
            cands = [(i, bp) for i, (n, _) in enumerate(prog) for bp in BAD_PARAMS if bp[0] == programs.kind_of(n)]
            i, (k, upd) = rnd.choice(cands)
            prog[i][1].update(copy.deepcopy(upd))
            bad = [prog[i][0], upd]
        # histories on one machine
        accept = programs.dfa_accepts([n for n, _ in prog]) and bad is None
        if cls == "enum":
            hist = ["check"] + (["run"] if accept else [])
        elif not accept:
            hist = ["check"]
        else:
            run_heavy = rnd.random() < (0.5 if tier == "quick" else 0.6)
            if run_heavy:
                hist = ["check"] + rnd.choice([["run"], ["run", "run"], ["run", "check", "run"], ["check", "run"],
                                               ["run", "run", "check", "run"]])
            else:
                hist = rnd.choice([["check"], ["check", "check"]])
        sc = {"harness": "history", "class": cls, "world": w, "program": prog, "history": hist, "bad": bad}
        if accept and "run" in hist and rnd.random() < 0.35:
            # the checked configuration is also run on a brand-new machine object
            hist.insert(rnd.randint(hist.index("run"), len(hist)), "run_fresh")
        if accept and cls != "enum" and rnd.random() < 0.35:
            # the same machine first checks (and maybe runs) ANOTHER pipeline: the same steps under the same names in
            # another legal order
            names_ = [n for n, _ in prog]
            kinds_ = [programs.kind_of(n) for n in names_]
            blocks = [[i for i, k in enumerate(kinds_) if k in programs.CV_KINDS],
                      [i for i, k in enumerate(kinds_) if k in programs.DM_KINDS and k != "multiscale"]]
            blocks = [b for b in blocks if len(b) >= 2]
            if "disparity" in kinds_ and (not blocks or rnd.random() < 0.5):
                # ... or a pipeline with one more step than this one
                extra = rnd.choice([["filter.extra", {"filter_method": "median", "filter_size": 3}],
                                    ["refinement.extra", {"refinement_method": "vfit"}],
                                    ["cost_volume_confidence.extra", {"confidence_method": "std_intensity"}]])
                prior = copy.deepcopy(prog)
                di = kinds_.index("disparity")
                if programs.kind_of(extra[0]) == "cost_volume_confidence":
                    prior.insert(rnd.randint(1, di), extra)
                else:
                    mi = kinds_.index("multiscale") if "multiscale" in kinds_ else len(prior)
                    prior.insert(rnd.randint(di + 1, mi), extra)
                sc["prior"] = prior
                sc["history"] = ["prior_check"] + (["prior_run"] if rnd.random() < 0.5 else []) + hist
            elif blocks:
                b = rnd.choice(blocks)
                perm = b[:]
                for _ in range(5):
                    rnd.shuffle(perm)
                    if perm != b:
                        break
                if perm != b:
                    prior = list(prog)
                    for dst, src in zip(b, perm):
                        prior[dst] = prog[src]
                    sc["prior"] = copy.deepcopy(prior)
                    sc["history"] = ["prior_check"] + (["prior_run"] if rnd.random() < 0.5 else []) + hist
        if sc.get("prior") and "run" in sc["history"] and rnd.random() < 0.4:
            # ... and once more between this pipeline's check and its run: the configuration returned by the check
            # must still describe this pipeline
            h = sc["history"]
            first_run = h.index("run")
            h.insert(first_run, "prior_check")
        # ... or a near-twin of this pipeline: the same steps under the same names, one parameter of one step changed; the
        # twin is checked and run first, then this pipeline, which must give what a brand-new machine gives. (Decided from
        # a hash of the program, not from the random stream: every other scenario keeps its content.)
        hh = hashlib.sha256(harness.jdump(prog).encode()).digest()
        if accept and cls != "enum" and "run" in hist and hh[0] < 48:
            g = random.Random(int.from_bytes(hh[1:9], "big"))
            tw = programs.twin_tweaks(g, prog, w)
            kinds_p = [programs.kind_of(n) for n, _ in prog]
            can_validate = w["disp"]["kind"] == "scalar" or w.get("disp_right")
            prior = None
            if "validation" not in kinds_p and "disparity" in kinds_p and can_validate and (not tw or hh[9] < 110):
                # ... or this pipeline plus a validation step: what the earlier pipeline asked for on the right image
                # must not be done for this one
                prior = copy.deepcopy(prog)
                mi = kinds_p.index("multiscale") if "multiscale" in kinds_p else len(prior)
                prior.insert(g.randint(kinds_p.index("disparity") + 1, mi),
                             ["validation.prior", {"validation_method": "cross_checking_accurate"}])
            elif tw:
                si, k_, v_ = g.choice(tw)
                prior = copy.deepcopy(prog)
                prior[si][1][k_] = v_
            if prior is not None:
                sc["prior"] = prior
                sc["history"] = ["prior_check", "prior_run"] + [x for x in hist if not x.startswith("prior_")]
                if "run_fresh" not in sc["history"]:
                    sc["history"].append("run_fresh")
                sc["twin_prior"] = True
        return sc

    # -----------------------------------------------------------------------------------------------------------
    def execute(self, sc):
        probes.install_plugin_recorders()
        w, prog = sc["world"], sc["program"]
        names = [n for n, _ in prog]
        kinds = [programs.kind_of(n) for n in names]
        ds = world.build(w)
        machine, rec = runner.new_machine(snapshots=False)
        viol = []
        cov = {}

        def bump(k, n=1):
            cov[k] = cov.get(k, 0) + n

        model_accept = programs.dfa_accepts(names) and not sc.get("bad")
        has_validation = "validation" in kinds
        suffix_only = sorted(
            {k for k in ("matching_cost", "optimization", "semantic_segmentation") if k in kinds and k not in names}
        )
        user_cfg = programs.to_cfg(prog)
        checked = None
        first = {}
        retired = False
        fresh = None
        for opi, op in enumerate(sc["history"]):
            if retired:
                break
            if op in ("prior_check", "prior_run"):
                pcfg = programs.to_cfg(sc["prior"])
                if op == "prior_check":
                    ok, out = runner.do_check(machine, pcfg, ds)
                    if not ok:
                        viol.append({"class": "C01.verdict", "sig": {"expected": "accept", "got": "reject",
                                                                     **runner.exc_sig(out), "which": "prior"},
                                     "op": opi, "names": [n for n, _ in sc["prior"]]})
                        retired = True
                    else:
                        first["prior_cfg"] = out
                else:
                    ok, out = runner.do_run(machine, ds, copy.deepcopy(first["prior_cfg"]))
                    if not ok:
                        retired = True
                rec.events.clear()
                rec.calls.clear()
                rec.call_cfgs.clear()
                bump("prior_ops")
                continue
            run_machine, run_rec = machine, rec
            if op == "run_fresh":
                if checked is None:
                    continue
                fresh = runner.new_machine(snapshots=False)
                run_machine, run_rec = fresh
                bump("run_fresh_ops")
            if op == "check":
                ok, out = runner.do_check(machine, user_cfg, ds)
                bump("check_ops")
                bump("accepted" if ok else "rejected")
                if ok != model_accept:
                    sig = {"expected": "accept" if model_accept else "reject", "got": "accept" if ok else "reject"}
                    if model_accept and suffix_only:
                        sig["cause"] = "suffix_only:" + "+".join(suffix_only)
                    if not ok:
                        sig.update(runner.exc_sig(out))
                    viol.append({"class": "C01.verdict", "sig": sig, "op": opi, "names": names})
                if not ok:
                    from transitions import MachineError

                    bump("refusal_MachineError" if isinstance(out, MachineError) else "refusal_other_exception")
                    retired = True
                    continue
                checked = out
                # every configured step registered, in order, nothing reordered / truncated
                got_names = list(out["pipeline"].keys())
                if got_names != names:
                    viol.append({"class": "C01.checked_cfg_order", "sig": {}, "got": got_names, "names": names})
                check_events = [e["name"] for e in rec.events if e["phase"] == "check"]
                rounds = 2 if machine.right_disp_map else 1
                if check_events != names * rounds:
                    viol.append({"class": "C01.check_history", "sig": {"rounds": rounds}, "got": check_events,
                                 "names": names})
                rec.events.clear()
                canon = runner.canon_cfg(out)
                if "cfg" in first and first["cfg"] != canon:
                    viol.append({"class": "C01.repeat_check_differs", "sig": {}, "first": first["cfg"], "got": canon})
                first.setdefault("cfg", canon)
                if machine.state != "begin" or len(machine.events) != 0:
                    viol.append({"class": "C01.not_reset_after_check",
                                 "sig": {"state": machine.state, "events": len(machine.events)}})
            else:  # run
                if checked is None:
                    continue
                run_rec.events.clear()
                run_rec.calls.clear()
                run_rec.call_cfgs.clear()
                ok, out = runner.do_run(run_machine, ds, copy.deepcopy(checked))
                bump("run_ops")
                if not ok:
                    from transitions import MachineError

                    if isinstance(out, MachineError):
                        viol.append({"class": "C01.sequencing_error_in_run", "sig": runner.exc_sig(out),
                                     "names": names})
                    elif op == "run_fresh" and "run" in first:
                        # the same configuration ran on the machine that checked it and fails on a new machine
                        viol.append({"class": "C01.run_fails_on_fresh_machine", "sig": runner.exc_sig(out),
                                     "names": names})
                    else:
                        # not a sequencing error: counted, reported in the evidence, not a C01 violation (DESIGN §5 C01)
                        bump("non_sequencing_exceptions")
                        bump("non_sequencing:" + runner.exc_sig(out)["exception"] + "@" + runner.exc_sig(out)["where"])
                    retired = retired or op != "run_fresh"
                    continue
                nscales = run_machine.num_scales
                bump("scales_gt1" if nscales > 1 else "scales_1")
                # scale index from the event's 'scale' field (current_scale counts down to 0)
                got = [((nscales - 1 - e["scale"]), e["name"]) for e in run_rec.events if e["phase"] == "run"]
                exp = expected_run_events(names, nscales)
                if got != exp:
                    viol.append({"class": "C01.run_history", "sig": {"nscales": nscales}, "got": got, "expected": exp})
                # sides: every event's plugin method called L (then R iff validation present)
                sides_exp = ["L", "R"] if has_validation else ["L"]
                for e in run_rec.events:
                    if e["phase"] != "run":
                        continue
                    meth = PLUGIN_METHOD[e["kind"]]
                    sides = [s for (seq, m, s) in run_rec.calls if seq == e["seq"] and m == meth]
                    if sides != sides_exp:
                        viol.append({"class": "C01.sides", "sig": {"kind": e["kind"], "got": sides,
                                                                   "expected": sides_exp}, "name": e["name"]})
                        break
                    if e["kind"] == "filter":
                        # run as written: the object that filters for this step carries this step's own parameters
                        want = dict(prog)[e["name"]]
                        for (seq, m, ocfg) in run_rec.call_cfgs:
                            if seq != e["seq"] or m != meth:
                                continue
                            bad = {k: [v, ocfg.get(k)] for k, v in want.items()
                                   if isinstance(v, (int, float, str)) and k in ocfg and ocfg.get(k) != v}
                            if bad:
                                viol.append({"class": "C01.step_object_has_other_parameters",
                                             "sig": {"kind": "filter", "keys": sorted(bad)}, "name": e["name"], "diff": bad})
                                break
                    if e["kind"] == "validation" and "interpolated_disparity" in dict(prog)[e["name"]]:
                        isides = [s for (seq, m, s) in run_rec.calls if seq == e["seq"] and m == "interpolated_disparity"]
                        if isides != ["L", "R"]:
                            viol.append({"class": "C01.sides", "sig": {"kind": "interpolation", "got": isides}})
                left, right = out
                if not has_validation and len(right.data_vars) != 0:
                    viol.append({"class": "C01.right_not_empty", "sig": {}})
                dig = probes.digest_products(left, right)
                hist_dig = harness.jdump(got)
                if "run" in first and first["run"] != (dig, hist_dig):
                    viol.append({"class": "C01.repeat_run_differs",
                                 "sig": {"products": first["run"][0] != dig, "history": first["run"][1] != hist_dig}})
                first.setdefault("run", (dig, hist_dig))
                if run_machine.state != "begin" or len(run_machine.events) != 0:
                    viol.append({"class": "C01.not_reset_after_run",
                                 "sig": {"state": run_machine.state, "events": len(run_machine.events)}})
        edges = sorted({f"{a}>{b}" for a, b in zip(["begin"] + kinds, kinds)})
        return {
            "violations": viol,
            "cov": cov,
            "shape": harness.jdump([kinds, sc["history"], bool(sc.get("bad")), bool(suffix_only)]),
            "shapes": [harness.jdump([kinds, sc["history"], bool(sc.get("bad"))])],
            "digest": first.get("run", ("",))[0] or harness.jdump(first.get("cfg")),
            "steps": cov.get("check_ops", 0) * len(names) + sum(1 for _ in rec.events),
            "probes": {
                "accepted_program": int(model_accept),
                "rejected_program": int(not model_accept),
                "suffix_only_name": int(bool(suffix_only)),
                "multi_dot_suffix": int(any(n.count(".") > 1 for n in names)),
                "second_checking_round": int(bool(machine.right_disp_map)),
                "repeat_on_same_machine": int(len(sc["history"]) > 2),
                "other_pipeline_checked_first_on_same_machine": int(bool(sc.get("prior"))),
                "run_on_fresh_machine": int("run_fresh" in sc["history"]),
                "multiscale_program_run": int("multiscale" in kinds and "run" in sc["history"] and model_accept),
                **{"edge:" + e: 1 for e in edges},
            },
        }

    def simplify(self, sc):
        prog = sc["program"]
        if sc.get("prior"):
            c = copy.deepcopy(sc)
            c.pop("prior")
            c["history"] = [h for h in c["history"] if not h.startswith("prior_")]
            yield c
            sc = copy.deepcopy(sc)  # below: never drop a step from only one of the two programs
            yield {**sc, "history": [h for h in sc["history"] if h != "prior_run"]}
            return
        # drop a step
        for i in range(len(prog)):
            c = copy.deepcopy(sc)
            del c["program"][i]
            if sc.get("bad") and sc["bad"][0] == prog[i][0]:
                continue
            yield c
        # shorten history
        for i in range(len(sc["history"]) - 1, 0, -1):
            c = copy.deepcopy(sc)
            del c["history"][i]
            yield c
        # simpler world
        c = copy.deepcopy(sc)
        if c["world"].get("mask_left") or c["world"].get("mask_right"):
            c["world"]["mask_left"] = c["world"]["mask_right"] = None
            yield c
        # default parameters
        for i, (n, p) in enumerate(prog):
            for k in list(p):
                if k.endswith("_method") or (sc.get("bad") and sc["bad"][0] == n and k in sc["bad"][1]):
                    continue
                if k in ("band", "RGB_bands"):
                    continue
                c = copy.deepcopy(sc)
                del c["program"][i][1][k]
                yield c

    def describe(self):
        return {
            "rule": "scenario = (program of step names with suffixes and parameters, history of check/run operations on "
            "one machine object); indices 0..1110 enumerate all step-kind sequences of length <= 3, the rest are seeded "
            "(random DFA walks, single edits of walks, uniform sequences, walks with one invalid parameter). Distinct = "
            "distinct (step-kind sequence, history, has-bad-parameter) tuples that were executed against the real "
            "machine; every one of them is non-trivial in that the DFA verdict was compared with check_conf's.",
            "assumptions": [
                "any exception raised by check_conf counts as refusal (the share that is MachineError is reported)",
                "optimization and semantic_segmentation are served by identity stubs registered through the real "
                "registries",
                "the number of processed scales is read from the machine (C15 decides whether it is the right number)",
                "worlds are benign (image larger than the window, |d| < columns) so that numerical failures cannot be "
                "confused with sequencing errors",
            ],
        }


if __name__ == "__main__":
    sys.exit(harness.main(C01(), os.path.abspath(__file__)))
