"""
C06 - refinement moves a disparity by at most half a sample, never for the worse.   DESIGN.md §5 (C06)
Programs with refinement after every legal prefix (after WTA, after filters, after validation with filling, repeated);
the monitor is evaluated at every refinement event on every computed side; totality = the step never raises.
"""
import os
import sys

sys.path.insert(0, os.path.dirname(os.path.dirname(os.path.abspath(__file__))))
from sim import harness, pipeline, runner, programs  # noqa: E402
from sim.mon_refine import RefinementMonitor  # noqa: E402

PROFILE = {
    "cv_kinds": ["aggregation", "optimization", "cost_volume_confidence"],
    "max_cv": 1,
    "dm_kinds": ["refinement", "refinement", "filter", "filter", "validation"],
    "must_dm": ["refinement"],
    "min_dm": 1,
    "max_dm": 4,
    "mask_p": 0.5,
    "mono_p": 0.9,
    "fill_p": 0.6,
    "mc": {"max_window": 5},
    "conf_methods": ["ambiguity", "std_intensity"],
}


class C06:
    prop = "C06"
    level = "exploration"
    budgets = {"quick": 1800, "thorough": 60000}
    warm_refinement = True

    def generate(self, rnd, index, tier):
        prof = dict(PROFILE)
        prof["invalid"] = rnd.choice(["NaN", -9999, -9999, 77])
        sc = pipeline.gen_scenario(rnd, prof)
        # flat / tied cost curves: low-contrast radiometry
        if rnd.random() < 0.4:
            sc["world"]["left"]["hi"] = rnd.choice([0, 1, 2, 3])
            sc["world"]["left"]["kind"] = rnd.choice(["randint", "flatish", "blocks"])
            if sc["world"]["right"]["kind"] == "shift":
                sc["world"]["right"]["noise"] = rnd.choice([0, 0, 1])
            else:
                sc["world"]["right"]["hi"] = sc["world"]["left"]["hi"]
        return sc

    def execute(self, sc):
        res = pipeline.execute(sc, [lambda ctx, rec: RefinementMonitor(ctx, rec)])
        rec, ctx = res["rec"], res["ctx"]
        viol = list(rec.violations)
        cov = dict(ctx.cov) if ctx else {}
        kinds = [programs.kind_of(n) for n, _ in sc["program"]]
        if not res["ok"]:
            sig = runner.exc_sig(res["exc"])
            last = rec.events[-1] if rec.events else None
            if res["stage"] == "run" and last is not None and last["kind"] == "refinement" and last["exc"]:
                meth = dict(sc["program"])[last["name"]].get("refinement_method")
                viol.append({"class": "C06.not_total", "sig": {"exception": sig["exception"], "method": meth},
                             "step": last["name"], "msg": str(res["exc"])[:200],
                             "prefix": kinds[: kinds.index("refinement") + 1]})
            else:
                cov["skipped:" + res["stage"] + ":" + sig["exception"] + "@" + sig["where"]] = 1
        pr = dict(ctx.probes) if ctx else {}
        ri = [i for i, k in enumerate(kinds) if k == "refinement"]
        prev = sorted({kinds[i - 1] for i in ri})
        for p in prev:
            pr["refinement_after:" + p] = 1
        return {
            "violations": viol,
            "cov": cov,
            "shape": harness.jdump([kinds, [p.get("refinement_method") for n, p in sc["program"]
                                            if programs.kind_of(n) == "refinement"],
                                    sc["program"][0][1].get("matching_cost_method"),
                                    sc["program"][0][1].get("subpix", 1)]),
            "digest": rec.log_digest(),
            "steps": len(rec.events),
            "probes": pr,
            "evaluations": 1 if (res["ok"] or viol) else 0,
        }

    def simplify(self, sc):
        return pipeline.simplify_pipeline(sc)

    def describe(self):
        return {
            "rule": "scenario = (world, legal program containing >= 1 refinement step after an arbitrary legal prefix); "
            "distinct = distinct (step-kind sequence, refinement methods, measure, subpix); non-trivial = the run "
            "reached and completed (or raised in) a refinement step with the monitor attached.",
            "assumptions": [
                "the fit-optimum, coefficient and bit-3 clauses are asserted only where the received disparity is a "
                "sampled disparity (the case the statement's parenthesis describes); for off-sample inputs (after a "
                "filter or an earlier refinement) only: invalid pixels untouched, shift <= half a sample, result inside "
                "the global interval, mask delta within bit 3, totality",
                "valid pixels whose own cost is NaN (possible after filling) are counted, not asserted",
                "reference arithmetic in float64 with 1e-4 relative tolerance",
            ],
        }


if __name__ == "__main__":
    sys.exit(harness.main(C06(), os.path.abspath(__file__)))
