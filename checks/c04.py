"""
C04 - validity flags, NaN costs and invalid disparities tell one coherent story.   DESIGN.md §5 (C04)
Legal programs (biased to repeat refinement, filter and validation) run through the real machine; monitors evaluate the
flag story, the documented causes and the per-step frame rule at every step event on both sides.
"""
import os
import sys

sys.path.insert(0, os.path.dirname(os.path.dirname(os.path.abspath(__file__))))
from sim import harness, pipeline, runner, probes, programs  # noqa: E402
from sim.mon_flags import FlagMonitor  # noqa: E402

PROFILE = {
    "cv_kinds": ["aggregation", "optimization", "semantic_segmentation", "cost_volume_confidence"],
    "max_cv": 2,
    "dm_kinds": ["refinement", "refinement", "filter", "filter", "validation", "validation"],
    "min_dm": 1,
    "max_dm": 5,
    "mask_p": 0.75,
    "wide_p": 0.03,
    "mono_p": 0.85,
    "fill_p": 0.5,
    "mc": {"max_window": 5},
    "intervals": True,
    "intervals_p": 0.25,
    "conf_methods": ["ambiguity", "std_intensity", "risk", "interval_bounds"],
}


class C04:
    prop = "C04"
    level = "exploration"
    budgets = {"quick": 1800, "thorough": 60000}
    warm_refinement = True

    def generate(self, rnd, index, tier):
        prof = dict(PROFILE)
        prof["invalid"] = rnd.choice(["NaN", "NaN", -9999, -9999, 77, -31.5])
        return pipeline.gen_scenario(rnd, prof)

    def execute(self, sc):
        res = pipeline.execute(sc, [lambda ctx, rec: FlagMonitor(ctx, rec)])
        rec, ctx = res["rec"], res["ctx"]
        viol = list(rec.violations)
        cov = dict(ctx.cov) if ctx else {}
        kinds = [programs.kind_of(n) for n, _ in sc["program"]]
        if not res["ok"]:
            # a step outside the monitored property raised (or the program was refused): counted, not asserted here
            sig = runner.exc_sig(res["exc"])
            cov["skipped:" + res["stage"] + ":" + sig["exception"] + "@" + sig["where"]] = 1
        rep = {k: kinds.count(k) for k in ("refinement", "filter", "validation")}
        pr = dict(ctx.probes) if ctx else {}
        pr["repeated_refinement"] = int(rep["refinement"] > 1 and res["ok"])
        pr["repeated_validation"] = int(rep["validation"] > 1 and res["ok"])
        pr["repeated_filter"] = int(rep["filter"] > 1 and res["ok"])
        return {
            "violations": viol,
            "cov": cov,
            "shape": harness.jdump([kinds, sc["world"]["disp"]["kind"], bool(sc["world"].get("mask_left")),
                                    bool(sc["world"].get("mask_right")), sc["program"][0][1].get("window_size")]),
            "digest": rec.log_digest(),
            "steps": len(rec.events),
            "probes": pr,
            "evaluations": 1 if res["ok"] else 0,
        }

    def simplify(self, sc):
        return pipeline.simplify_pipeline(sc)

    def describe(self):
        return {
            "rule": "scenario = (world with masks/nodata and an interval shape, legal program biased to repeat "
            "refinement/filter/validation); evaluated = runs that completed under the monitors; distinct = distinct "
            "(step-kind sequence, interval kind, left-mask?, right-mask?, window) tuples; every evaluated run is "
            "non-trivial: the flag story, causes and frame rule were evaluated at each of its step events on every "
            "computed side.",
            "assumptions": [
                "bit causes are evaluated over the global integer interval as the statement says; when the whole "
                "interval is outside the right image bit 2 is not asserted (ambiguous wording)",
                "'outside the right image' means the matching window does not fit in the right image",
                "invalid_disparity is NaN or outside the searched interval (statement precondition, enforced by the "
                "generator)",
                "clause (b) is a per-call reference check riding on the simulated programs; the simulated dimension "
                "is the program (order and repetition of in-place steps)",
            ],
        }


if __name__ == "__main__":
    sys.exit(harness.main(C04(), os.path.abspath(__file__)))
