"""C18 (c): executes a batch of pipeline scenarios under one real build configuration, writes their digests."""
import hashlib
import json
import os
import sys

sys.path.insert(0, os.path.dirname(os.path.dirname(os.path.abspath(__file__))))


def main():
    from sim import boot

    par, thr = os.environ["VERIF_BUILD_PARALLEL"], os.environ["VERIF_BUILD_THREADS"]
    boot.boot(parallel=par, threads=thr, layer=None)
    from sim import pipeline, probes, programs
    import numpy as np

    with open(sys.argv[1]) as f:
        scenarios = json.load(f)
    out = []
    for sc in scenarios:
        try:
            res = pipeline.execute(sc, [], snapshots=False)
        except Exception as e:  # noqa
            out.append({"ok": False, "exc": type(e).__name__})
            continue
        if not res["ok"]:
            from sim import runner

            sig = runner.exc_sig(res["exc"])
            out.append({"ok": False, "exc": sig["exception"], "where": sig["where"], "stage": res["stage"]})
            continue
        left, right = res["left"], res["right"]
        h = hashlib.sha256()
        for ds in (left, right):
            if "disparity_map" in ds.data_vars:
                probes.digest_array(h, "d", ds["disparity_map"].data)
                # flags present before validation, bit 11 excluded (derived from a confidence band)
                probes.digest_array(h, "m", ds["validity_mask"].data.astype(np.int64) & 0b11000111)
        out.append({"ok": True, "full": probes.digest_products(left, right, attrs=False), "core": h.hexdigest()})
    with open(sys.argv[2], "w") as f:
        json.dump(out, f)


if __name__ == "__main__":
    main()
