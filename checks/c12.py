"""
C12 - confidence bands follow their definitions, bracket the winner, only add bands.   DESIGN.md §5 (C12)
Programs with any number and order of confidence steps; per-event monitors plus differential runs of the program
without its confidence steps (fresh machines, bit-exact).
"""
import copy
import os
import sys

sys.path.insert(0, os.path.dirname(os.path.dirname(os.path.abspath(__file__))))
from sim import harness, pipeline, runner, programs, probes, world  # noqa: E402
from sim.mon_conf import ConfidenceMonitor  # noqa: E402

PROFILE = {
    "cv_kinds": ["cost_volume_confidence"] * 4 + ["aggregation", "optimization"],
    "min_cv": 0,
    "max_cv": 5,
    "dm_kinds": ["refinement", "filter", "validation"],
    "min_dm": 0,
    "max_dm": 2,
    "mask_p": 0.5,
    "mono_p": 0.85,
    "fill_p": 0.3,
    "mc": {"max_window": 5},
}


class C12:
    prop = "C12"
    level = "exploration"
    budgets = {"quick": 1200, "thorough": 40000}
    warm_refinement = True

    def generate(self, rnd, index, tier):
        sc = pipeline.gen_scenario(rnd, PROFILE)
        # suffixes that themselves contain dots ('cost_volume_confidence.a.b')
        if rnd.random() < 0.25:
            used = {n for n, _ in sc["program"]}
            for st in sc["program"]:
                if programs.kind_of(st[0]) == "cost_volume_confidence" and rnd.random() < 0.5:
                    new = st[0] + (".x" if "." in st[0] else ".m.x")
                    if new not in used:
                        used.add(new)
                        st[0] = new
        # give interval_bounds steps a regularisation (needs an earlier ambiguity band) now and then
        prog = sc["program"]
        amb_sfx = None
        for n, p in prog:
            if programs.kind_of(n) != "cost_volume_confidence":
                continue
            if p["confidence_method"] == "ambiguity":
                amb_sfx = n.split(".", 1)[1] if "." in n else ""
            if p["confidence_method"] == "interval_bounds" and amb_sfx is not None and rnd.random() < 0.6:
                p.update({"regularization": True, "ambiguity_indicator": amb_sfx,
                          "ambiguity_threshold": rnd.choice([0.0, 0.3, 0.6, 1.0]),
                          "ambiguity_kernel_size": rnd.choice([1, 3, 5]), "vertical_depth": rnd.choice([0, 1, 2]),
                          "quantile_regularization": rnd.choice([1.0, 1.0, 1.0, 0.8])})
        return sc

    def execute(self, sc):
        res = pipeline.execute(sc, [lambda ctx, rec: ConfidenceMonitor(ctx, rec)])
        rec, ctx = res["rec"], res["ctx"]
        viol = list(rec.violations)
        cov = dict(ctx.cov) if ctx else {}
        prog = sc["program"]
        kinds = [programs.kind_of(n) for n, _ in prog]
        nconf = kinds.count("cost_volume_confidence")
        if not res["ok"]:
            sig = runner.exc_sig(res["exc"])
            last = rec.events[-1] if rec.events else None
            pre_ok = not (ctx and ctx.probes.get("precondition_not_met_fewer_than_2_distinct_costs"))
            cov["skipped:" + res["stage"] + ":" + sig["exception"] + "@" + sig["where"]] = 1
            if last is not None and last["kind"] == "cost_volume_confidence" and last["exc"]:
                cov["confidence_step_raised:" + sig["exception"]] = 1
        elif nconf:
            # differential: without any confidence step
            noconf = [s for s in prog if programs.kind_of(s[0]) != "cost_volume_confidence"]
            sc2 = copy.deepcopy(sc)
            sc2["program"] = noconf
            r2 = pipeline.execute(sc2, [], snapshots=False)
            if not r2["ok"]:
                viol.append({"class": "C12.program_without_confidence_fails", "sig": runner.exc_sig(r2["exc"])})
            else:
                for side, x, y in (("left", res["left"], r2["left"]), ("right", res["right"], r2["right"])):
                    for var in ("disparity_map", "validity_mask", "interpolated_coeff"):
                        if (var in x.data_vars) != (var in y.data_vars):
                            viol.append({"class": "C12.confidence_changes_products", "sig": {"var": var, "side": side}})
                        elif var in x.data_vars and probes._canon(x[var].data).tobytes() != probes._canon(y[var].data).tobytes():
                            viol.append({"class": "C12.confidence_changes_products", "sig": {"var": var, "side": side}})
                cov["differential_without_confidence"] = 1
            # differential: without ONE confidence step (deterministic pick), common bands identical
            if nconf >= 2:
                ci = [i for i, k in enumerate(kinds) if k == "cost_volume_confidence"]
                drop = ci[len(prog) % len(ci)]
                dropped = prog[drop]
                needed = any(p.get("ambiguity_indicator") is not None and p.get("regularization")
                             for n, p in prog if programs.kind_of(n) == "cost_volume_confidence") \
                    and dropped[1]["confidence_method"] == "ambiguity"
                if not needed:
                    sc3 = copy.deepcopy(sc)
                    del sc3["program"][drop]
                    r3 = pipeline.execute(sc3, [], snapshots=False)
                    if r3["ok"] and "confidence_measure" in r3["left"].data_vars:
                        l1 = [str(s) for s in res["left"].coords["indicator"].data]
                        l3 = [str(s) for s in r3["left"].coords["indicator"].data]
                        if [x for x in l1 if x in l3] != l3:
                            viol.append({"class": "C12.band_order_depends_on_other_step", "sig": {}, "with": l1,
                                         "without": l3})
                        else:
                            for lab in l3:
                                a = res["left"]["confidence_measure"].data[:, :, l1.index(lab)]
                                b = r3["left"]["confidence_measure"].data[:, :, l3.index(lab)]
                                if probes._canon(a).tobytes() != probes._canon(b).tobytes():
                                    viol.append({"class": "C12.band_depends_on_other_step",
                                                 "sig": {"band": lab.split(".")[0],
                                                         "dropped": dropped[1]["confidence_method"]}})
                                    break
                        cov["differential_without_one_step"] = 1
        pr = dict(ctx.probes) if ctx else {}
        pr["n_conf_steps_ge_3"] = int(nconf >= 3 and res["ok"])
        pr["no_conf_step"] = int(nconf == 0)
        return {
            "violations": viol,
            "cov": cov,
            "shape": harness.jdump([kinds, [p.get("confidence_method") for _, p in prog if "confidence_method" in p],
                                    prog[0][1].get("matching_cost_method")]),
            "digest": rec.log_digest(),
            "steps": len(rec.events),
            "probes": pr,
            "evaluations": 1 if res["ok"] else 0,
        }

    def simplify(self, sc):
        return pipeline.simplify_pipeline(sc)

    def describe(self):
        return {
            "rule": "scenario = (world, legal program with 0..5 confidence steps in any order, with suffixes); distinct "
            "= distinct (step-kind sequence, confidence methods in order, measure); non-trivial = the run completed "
            "under the monitor (labels/frame rule at every confidence event, definitions where the precondition "
            "holds) and the differential runs were compared.",
            "assumptions": [
                "precondition enforced on the actual volume: fewer than two distinct finite costs -> definitions not "
                "asserted (counted)",
                "for a max-type measure the pixel's best is its largest cost (the normalised curve is mirrored before the "
                "ambiguity / risk definitions are applied)",
                "values not asserted when (eta_max/eta_step) is within 1e-3 of an integer (float32 arange yields 70 or "
                "71 samples depending on the build) or when a cost sits within 1e-5 of a comparison boundary",
                "NaN costs may or may not count as 'within eta' (bracket between both readings) when normalisation is "
                "off; the normalised value is compared with the reading the code uses",
                "winner bracketing asserted only when no aggregation step lies between the interval_bounds step and "
                "the disparity step, and not under regularisation with quantile < 1",
                "the suffix of a band is everything after the step kind in the step name (also for 'kind.a.b')",
            ],
        }


if __name__ == "__main__":
    sys.exit(harness.main(C12(), os.path.abspath(__file__)))
