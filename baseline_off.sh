#!/bin/bash
# Runs the repository's pinned test suite with the verification guard OFF and compares with /root/.vp/BASELINE.json
unset PANDORA_VERIF
out=${1:-/tmp/verif_baseline_off.junit.xml}
cd /repo && /venv/bin/python -m pytest -ra -q -p no:cacheprovider --timeout=900 --continue-on-collection-errors --junitxml=$out > /tmp/verif_baseline_off.log 2>&1
python3 - "$out" <<'PY'
import json, sys, xml.etree.ElementTree as ET
base = json.load(open('/root/.vp/BASELINE.json'))
stable = set(base['stable_pass'])
passed = set()
for tc in ET.parse(sys.argv[1]).getroot().iter('testcase'):
    ok = not any(ch.tag in ('failure', 'error', 'skipped') for ch in tc)
    if ok:
        passed.add(f"{tc.get('classname')}::{tc.get('name')}")
missing = sorted(stable - passed)
print(f"stable_pass={len(stable)} passed_now={len(passed)} missing={len(missing)}")
for m in missing[:20]:
    print("MISSING", m)
sys.exit(1 if missing else 0)
PY
