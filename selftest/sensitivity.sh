#!/bin/bash
# Runs every mutant of selftest/mutants (and of seeded/*/patch.diff) against the quick check(s) it is expected to trip.
# usage: selftest/sensitivity.sh [name-pattern]
cd "$(dirname "$0")/.."
pat="${1:-}"
python3 - "$pat" <<'PY' > /tmp/verif_sens_plan_$$.txt
import json, sys, glob, os
pat = sys.argv[1]
exp = json.load(open('selftest/mutants/EXPECTED.json'))
for name, checks in sorted(exp.items()):
    if pat in name:
        print(f"selftest/mutants/{name}.diff", *checks)
for meta in sorted(glob.glob('seeded/*/meta.json')):
    m = json.load(open(meta)); d = os.path.dirname(meta)
    if pat in d and not str(m.get("status", "")).startswith("benign"):
        print(f"{d}/patch.diff", *m.get("checks_expected", [m["property"]]))
PY
while read -r patch checks; do
  tools/try_mutant.sh "$patch" $checks
done < /tmp/verif_sens_plan_$$.txt
rm -f /tmp/verif_sens_plan_$$.txt
