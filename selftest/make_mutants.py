#!/usr/bin/env python3
"""
Generates /verif/selftest/mutants/<name>.diff from (file, old, new) replacements applied in a scratch worktree of /repo.
Each mutant keeps the repository's test suite green (checked separately) and breaks one property; MUTANTS maps each to
the check(s) expected to report it.  selftest/sensitivity.sh runs them.
"""
import os
import subprocess
import sys
import tempfile

V = os.path.dirname(os.path.dirname(os.path.abspath(__file__)))

MUTANTS = {
    "m01_run_exit_keeps_state": (["C01"], [("pandora/state_machine.py",
        '        self.remove_transitions(self._transitions_run)\n        self.set_state("begin")\n',
        '        self.remove_transitions(self._transitions_run)\n')]),
    "m02_check_keeps_transitions": (["C01"], [("pandora/state_machine.py",
        '        # Remove transitions\n        self.remove_transitions(self._transitions_check)\n',
        '        # Remove transitions\n        if self.right_disp_map:\n            self.remove_transitions(self._transitions_check)\n')]),
    "m03_run_table_filter_dest": (["C01"], [("pandora/state_machine.py",
        '            "trigger": "filter",\n            "source": "disp_map",\n            "dest": "disp_map",\n            "after": "filter_run",',
        '            "trigger": "filter",\n            "source": "disp_map",\n            "dest": "cost_volume",\n            "after": "filter_run",')]),
    "m04_filter_right_pass_uses_left_map": (["C08"], [("pandora/state_machine.py",
        '            filter_.filter_disparity(self.right_disparity)',
        '            filter_.filter_disparity(self.left_disparity)')]),
    "m05_median_block_offset": (["C10"], [("pandora/filter/median.py",
        '                y_begin += disp_y.shape[0]\n',
        '                y_begin += disp_y.shape[0] - (1 if col > 0 else 0)\n')]),
    "m06_confidence_band_order": (["C12"], [("pandora/cost_volume_confidence/cost_volume_confidence.py",
        '                conf_measure[:, :, :-1] = cv["confidence_measure"].data\n',
        '                conf_measure[:, :, :-1] = cv["confidence_measure"].data[:, :, ::-1]\n')]),
    "m07_ambiguity_shared_scratch": (["C18"], [("pandora/cost_volume_confidence/ambiguity.py",
        '        # integral of ambiguity\n        ambiguity = np.zeros((n_row, n_col), dtype=np.float32)\n\n        for row in prange(n_row):  # pylint: disable=not-an-iterable\n            for col in prange(n_col):  # pylint: disable=not-an-iterable\n                # Normalized minimum cost for one point\n                normalized_min_cost = (np.nanmin(cv[row, col, :]) - min_cost) / (max_cost - min_cost)\n\n                # If all costs are at nan, set the maximum value of the ambiguity for this point\n                if np.isnan(normalized_min_cost):\n                    ambiguity[row, col] = etas.shape[0] * nb_disps\n                else:\n                    normalized_min_cost = np.repeat(normalized_min_cost, nb_disps * etas.shape[0])\n\n                    # Normalized cost volume for one point\n                    normalized_cv = (cv[row, col, :] - min_cost) / (max_cost - min_cost)\n',
        '        # integral of ambiguity\n        ambiguity = np.zeros((n_row, n_col), dtype=np.float32)\n        # scratch buffer allocated once\n        scratch = np.zeros(nb_disps, dtype=np.float32)\n\n        for row in prange(n_row):  # pylint: disable=not-an-iterable\n            for col in prange(n_col):  # pylint: disable=not-an-iterable\n                # Normalized minimum cost for one point\n                normalized_min_cost = (np.nanmin(cv[row, col, :]) - min_cost) / (max_cost - min_cost)\n\n                # If all costs are at nan, set the maximum value of the ambiguity for this point\n                if np.isnan(normalized_min_cost):\n                    ambiguity[row, col] = etas.shape[0] * nb_disps\n                else:\n                    normalized_min_cost = np.repeat(normalized_min_cost, nb_disps * etas.shape[0])\n\n                    # Normalized cost volume for one point\n                    scratch[:] = (cv[row, col, :] - min_cost) / (max_cost - min_cost)\n                    normalized_cv = scratch\n')]),
    "m08_graph_regularization_loop_carried": (["C18"], [("pandora/interval_tools.py",
        '            agg_inf[n_pixels[j] : n_pixels[j + 1]] = interval_inf[left_i[j, 0], left_i[j, 1] : right_i[j, 1] + 1]',
        '            agg_inf[n_pixels[j] : n_pixels[j + 1]] = interval_inf_reg[left_i[j, 0], left_i[j, 1] : right_i[j, 1] + 1]')]),
    "m09_refinement_margin_non_cumulative": (["C20"], [("pandora/state_machine.py",
        '        self.margins.add_cumulative(input_step, refinement_.margins)',
        '        self.margins.add_non_cumulative(input_step, refinement_.margins)')]),
    "m10_mask_saved_as_float32": (["C19"], [("pandora/common.py",
        '        os.path.join(output, get_out_file_path("right_validity_mask.tif")),\n            dtype=rasterio.dtypes.uint16,\n',
        '        os.path.join(output, get_out_file_path("right_validity_mask.tif")),\n')]),
    "m11_save_config_swallows_oserror": (["C19"], [("pandora/common.py",
        '    with open(  # pylint:disable=unspecified-encoding\n        os.path.join(output, get_out_file_path("config.json")), "w"\n    ) as file_:\n        json.dump(user_cfg, file_, indent=2)\n',
        '    try:\n        with open(  # pylint:disable=unspecified-encoding\n            os.path.join(output, get_out_file_path("config.json")), "w"\n        ) as file_:\n            json.dump(user_cfg, file_, indent=2)\n    except OSError as exc:\n        logging.warning("configuration not saved: %s", exc)\n')]),
    "m12_check_dataset_skips_msk_shape": (["C17"], [("pandora/check_configuration.py",
        '    for data_var in filter(lambda i: i != "im", dataset):',
        '    for data_var in filter(lambda i: i not in ("im", "msk"), dataset):')]),
    "m13_zncc_schema_leak": (["C05"], [("pandora/matching_cost/zncc.py",
        '        schema["window_size"] = And(int, lambda input: input > 0 and (input % 2) != 0)\n',
        '        schema.setdefault("window_size", And(int, lambda input: input > 0 and (input % 2) != 0))\n')]),
    "m14_threshold_default_int": (["C05"], [("pandora/validation/validation.py",
        '    _THRESHOLD = 1.0\n', '    _THRESHOLD = 1\n')]),
    "m15_sigma_color_zero_accepted": (["C05"], [("pandora/filter/bilateral.py",
        '            "sigma_color": And(float, lambda input: input > 0),',
        '            "sigma_color": And(float, lambda input: input >= 0),')]),
    "m16_fill_left_only": (["C08", "C01"], [("pandora/state_machine.py",
        '                interpolate_.interpolated_disparity(self.left_disparity)\n                interpolate_.interpolated_disparity(self.right_disparity)\n',
        '                interpolate_.interpolated_disparity(self.left_disparity)\n')]),
    "m17_multiscale_skips_middle_scale": (["C15"], [("pandora/__init__.py",
        '    for _ in range(pandora_machine.num_scales):\n',
        '    for _ in range(min(pandora_machine.num_scales, 2)):\n')]),
    "m18_input_section_schema_not_reset": (["C17", "C05"], [("pandora/check_configuration.py",
        '    input_configuration_schema["right"].update(base_input_configuration_schema["right"])\n',
        '    if isinstance(cfg["input"]["left"]["disp"], str):\n        input_configuration_schema["right"].update(base_input_configuration_schema["right"])\n')]),
    "m21_optimization_right_pass_wrong_images": (["C08"], [("pandora/state_machine.py",
        '            self.right_cv = optimization_.optimize_cv(self.right_cv, self.right_img, self.left_img)',
        '            self.right_cv = optimization_.optimize_cv(self.right_cv, self.left_img, self.right_img)')]),
    "m20_bilateral_mutates_mask": (["C10", "C04"], [("pandora/filter/bilateral.py",
        '        disp["disparity_map"].data[valid] = disp_bilateral[valid]\n        disp.attrs["filter"] = "bilateral"\n',
        '        disp["disparity_map"].data[valid] = disp_bilateral[valid]\n        disp["validity_mask"].data[~np.isfinite(disp["disparity_map"].data)] |= cst.PANDORA_MSK_PIXEL_FILLED_NODATA\n        disp.attrs["filter"] = "bilateral"\n')]),
}


def main():
    out = os.path.join(V, "selftest", "mutants")
    os.makedirs(out, exist_ok=True)
    wt = tempfile.mkdtemp(prefix="verif_mkmut_")
    os.rmdir(wt)
    subprocess.run(["git", "-C", "/repo", "worktree", "add", "-q", "--detach", wt, "HEAD"], check=True)
    try:
        for name, (checks, reps) in MUTANTS.items():
            ok = True
            for path, old, new in reps:
                p = os.path.join(wt, path)
                s = open(p).read()
                if s.count(old) != 1:
                    print(f"{name}: pattern found {s.count(old)} times in {path}")
                    ok = False
                    break
                open(p, "w").write(s.replace(old, new))
            if ok:
                d = subprocess.run(["git", "-C", wt, "diff"], capture_output=True, text=True).stdout
                with open(os.path.join(out, name + ".diff"), "w") as f:
                    f.write(d)
                r = subprocess.run([sys.executable, "-m", "compileall", "-q"] + [os.path.join(wt, p) for p, _, _ in reps],
                                   capture_output=True)
                print(f"{name}: ok ({len(d.splitlines())} diff lines) expected {checks} compile={r.returncode}")
            subprocess.run(["git", "-C", wt, "checkout", "-q", "--", "."], check=True)
    finally:
        subprocess.run(["git", "-C", "/repo", "worktree", "remove", "--force", wt])
    with open(os.path.join(out, "EXPECTED.json"), "w") as f:
        import json

        json.dump({k: v[0] for k, v in MUTANTS.items()}, f, indent=1)


if __name__ == "__main__":
    main()
