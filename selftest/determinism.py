#!/usr/bin/env python
"""
Determinism self-test of the machinery (DESIGN §9).

For each check and a sample of scenario indices: the scenario is generated and executed
  - twice in forks of the same booted process,
  - at 1, 4 and 16 workers,
  - in a freshly spawned interpreter under another PYTHONHASHSEED (and there both forked and in-process),
and the complete result records (violations, digests, counters, probes) must be identical.

usage: selftest/determinism.py [--n 40] [C01 C04 ...]          (driver)
       selftest/determinism.py --emit C01 0,1,2 [--inproc]      (worker: prints one JSON line per scenario)
"""
import hashlib
import importlib
import json
import os
import subprocess
import sys

V = os.path.dirname(os.path.dirname(os.path.abspath(__file__)))
sys.path.insert(0, V)
sys.path.insert(0, os.path.join(V, "checks"))

ALL = ["C01", "C04", "C05", "C06", "C08", "C10", "C12", "C15", "C17", "C18", "C19", "C20"]


def load(pid):
    mod = importlib.import_module(pid.lower())
    return getattr(mod, pid)()


def rec_digest(res):
    res = {k: v for k, v in res.items() if k not in ("cold_sigs",)}
    if "cov" in res:
        res["cov"] = {k: v for k, v in res["cov"].items() if not k.startswith("cold_compile:")}
    return hashlib.sha256(json.dumps(res, sort_keys=True, default=str).encode()).hexdigest()[:20]


def scenarios(check, idxs, seed=0):
    from sim import harness

    out = []
    for i in idxs:
        rnd = harness.scenario_rng(check.prop, seed, i)
        sc = check.generate(rnd, i, "quick")
        sc.update({"property": check.prop, "seed": seed, "index": i})
        out.append(sc)
    return out


def emit(pid, idxs, inproc):
    from sim import boot, harness

    boot.boot()
    check = load(pid)
    if hasattr(check, "setup"):
        check.setup()
    scs = scenarios(check, idxs)
    if inproc:
        res = [check.execute(sc) for sc in scs]
        res = [json.loads(harness.jdump(r)) for r in res]
    else:
        res = harness.run_forked(check, scs, workers=8)
    for i, sc, r in zip(idxs, scs, res):
        print("DIGEST " + json.dumps({"i": i, "gen": hashlib.sha256(harness.jdump(sc).encode()).hexdigest()[:16],
                                      "res": rec_digest(r), "err": r.get("harness_error")}))


def main():
    args = sys.argv[1:]
    if args and args[0] == "--emit":
        emit(args[1], [int(x) for x in args[2].split(",")], "--inproc" in args)
        return 0
    n = 40
    if "--n" in args:
        n = int(args[args.index("--n") + 1])
        del args[args.index("--n"): args.index("--n") + 2]
    pids = args or ALL
    from sim import boot, harness

    boot.ensure_hashseed()
    boot.boot()
    harness.warm()
    harness.warm_refinement_variants()
    bad = 0
    for pid in pids:
        check = load(pid)
        if hasattr(check, "setup"):
            check.setup()
        # skip the scenario that spawns 8 interpreters (C18 index 0): covered by its own repetition oracle
        idxs = [i for i in range(1 if pid == "C18" else 0, 4000, max(1, 4000 // n))][:n]
        if pid == "C01":
            idxs = idxs[: n // 2] + list(range(1201, 1201 + n // 2))
        scs = scenarios(check, idxs)
        gen = {i: hashlib.sha256(harness.jdump(sc).encode()).hexdigest()[:16] for i, sc in zip(idxs, scs)}
        runs = {}
        for workers in (16, 16, 4, 1):
            res = harness.run_forked(check, scs if workers > 1 else scs[: max(4, n // 8)], workers=workers)
            runs.setdefault(workers, []).append([rec_digest(r) for r in res])
        base = runs[16][0]
        mism = []
        if runs[16][1] != base:
            mism.append("two runs at 16 workers differ")
        if runs[4][0] != base:
            mism.append("4 workers differ from 16")
        if runs[1][0] != base[: len(runs[1][0])]:
            mism.append("1 worker differs from 16")
        # fresh interpreter, other hash seed; forked and in-process
        for extra in ([], ["--inproc"]):
            sub = idxs[: max(6, n // 4)] if extra else idxs
            env = dict(os.environ, VERIF_HASHSEED="12345", PYTHONHASHSEED="12345")
            out = subprocess.run([sys.executable, os.path.abspath(__file__), "--emit", pid,
                                  ",".join(map(str, sub))] + extra, capture_output=True, env=env, cwd=V, timeout=3000)
            got = {}
            for line in out.stdout.decode().splitlines():
                if line.startswith("DIGEST "):
                    d = json.loads(line[7:])
                    got[d["i"]] = d
            if len(got) != len(sub):
                mism.append(f"fresh interpreter {extra} returned {len(got)}/{len(sub)} records: "
                            + out.stderr.decode(errors='replace')[-400:])
                continue
            for i in sub:
                if got[i]["gen"] != gen[i]:
                    mism.append(f"scenario {i}: generation differs under another PYTHONHASHSEED")
                    break
                if got[i]["res"] != base[idxs.index(i)]:
                    mism.append(f"scenario {i}: result differs in a fresh interpreter {extra or '[forked]'}")
                    break
        errs = sum(1 for r in res if r.get("harness_error"))
        print(f"[determinism] {pid}: {len(idxs)} scenarios x (2 runs @16, @4, @1 workers, fresh interpreter/hashseed "
              f"12345 forked + in-process): {'OK' if not mism else 'MISMATCH ' + '; '.join(mism)}", flush=True)
        bad += bool(mism)
    return 1 if bad else 0


if __name__ == "__main__":
    sys.exit(main())
