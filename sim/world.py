"""
Worlds: JSON description of a stereo pair -> xarray datasets in exactly the layout create_dataset_from_inputs
produces, plus the metadata datasets (get_metadata layout) that check_conf takes.  DESIGN.md §3.1.

Radiometry is integer valued (stored as float32) so that SAD/SSD/census arithmetic is exact.
"""
import copy

import numpy as np
import xarray as xr

BAND_NAMES = ["r", "g", "b", "nir"]


def _rng(seed):
    return np.random.Generator(np.random.PCG64(int(seed) & 0xFFFFFFFFFFFF))


def gen_world(rnd, rows=None, cols=None, bands=None, masks=None, disp=None, right_disp=None, georef=None, large=False):
    """Draw a world description from a python random.Random."""
    if rows is None:
        rows = rnd.randint(5, 14) if not large else rnd.randint(51, 110)
    if cols is None:
        cols = rnd.randint(7, 18) if not large else rnd.randint(51, 130)
    if bands is None:
        bands = 1 if rnd.random() < 0.8 else rnd.choice([2, 3])
    w = {"rows": rows, "cols": cols, "bands": bands}
    kind = rnd.choice(["randint", "randint", "randint", "ramp", "blocks", "flatish"])
    w["left"] = {"kind": kind, "lo": 0, "hi": rnd.choice([3, 8, 40, 200]), "seed": rnd.getrandbits(32)}
    rk = rnd.random()
    if rk < 0.7:
        w["right"] = {
            "kind": "shift",
            "d": rnd.randint(-2, 2),
            "noise": rnd.choice([0, 0, 1, 3]),
            "seed": rnd.getrandbits(32),
        }
    else:
        w["right"] = {"kind": "independent", "lo": 0, "hi": w["left"]["hi"], "seed": rnd.getrandbits(32)}
    if masks is None:
        masks = rnd.random() < 0.5
    for side in ("mask_left", "mask_right"):
        if masks and rnd.random() < 0.75:
            w[side] = {
                "seed": rnd.getrandbits(32),
                "p_invalid": rnd.choice([0.0, 0.03, 0.08, 0.2]),
                "p_nodata": rnd.choice([0.0, 0.03, 0.08]),
            }
        else:
            w[side] = None
    if disp is None:
        disp = "scalar" if rnd.random() < 0.7 else "grid"
    if disp == "scalar":
        lo = rnd.randint(-4, 2)
        hi = lo + rnd.randint(0, 5)
        w["disp"] = {"kind": "scalar", "min": lo, "max": hi}
    else:
        lo = rnd.randint(-4, 1)
        w["disp"] = {"kind": "grid", "lo": lo, "hi": lo + rnd.randint(1, 5), "seed": rnd.getrandbits(32),
                     "mode": rnd.choice(["both", "both", "min_uniform", "max_uniform"])}
    if right_disp is None:
        right_disp = disp == "grid" and rnd.random() < 0.6
    if right_disp and w["disp"]["kind"] == "grid":
        w["disp_right"] = {"kind": "grid", "lo": -w["disp"]["hi"], "hi": -w["disp"]["lo"], "seed": rnd.getrandbits(32),
                           "mode": rnd.choice(["both", "both", "min_uniform", "max_uniform"])}
    else:
        w["disp_right"] = None
    if georef is None:
        georef = rnd.random() < 0.3
    w["georef"] = {"crs": "EPSG:32631", "transform": [0.5, 0.0, 300000.0, 0.0, -0.5, 4800000.0]} if georef else None
    return w


def _image(spec, rows, cols, bands):
    g = _rng(spec["seed"])
    kind = spec["kind"]
    lo, hi = spec.get("lo", 0), spec.get("hi", 40)
    shape = (bands, rows, cols)
    if kind == "randint":
        im = g.integers(lo, hi + 1, size=shape)
    elif kind == "ramp":
        a, b = int(g.integers(1, 4)), int(g.integers(0, 3))
        rr, cc = np.meshgrid(np.arange(rows), np.arange(cols), indexing="ij")
        im = np.stack([(a * cc + b * rr + k) % (hi + 1) for k in range(bands)])
    elif kind == "blocks":
        bs = int(g.integers(2, 5))
        small = g.integers(lo, hi + 1, size=(bands, rows // bs + 1, cols // bs + 1))
        im = np.repeat(np.repeat(small, bs, axis=1), bs, axis=2)[:, :rows, :cols]
    elif kind == "flatish":
        im = np.full(shape, int(g.integers(lo, hi + 1)))
        k = max(1, rows * cols // 6)
        rr = g.integers(0, rows, size=k)
        cc = g.integers(0, cols, size=k)
        im[:, rr, cc] = g.integers(lo, hi + 1, size=(bands, k))
    elif kind == "flat":
        im = np.full(shape, lo)
    else:
        raise ValueError(kind)
    return im.astype(np.float32)


def _right_image(spec, left, rows, cols, bands):
    if spec["kind"] == "independent":
        return _image({**spec, "kind": "randint"}, rows, cols, bands)
    d = spec["d"]
    g = _rng(spec["seed"])
    # right(x + d) = left(x)  <=> right = roll(left, d) with fresh content on the wrapped columns
    right = np.roll(left, d, axis=2).copy()
    fill = g.integers(0, int(left.max()) + 1, size=left.shape).astype(np.float32)
    if d > 0:
        right[:, :, :d] = fill[:, :, :d]
    elif d < 0:
        right[:, :, d:] = fill[:, :, d:]
    n = spec.get("noise", 0)
    if n:
        right = right + g.integers(-n, n + 1, size=right.shape).astype(np.float32)
        right = np.clip(right, 0, None)
    return right.astype(np.float32)


def _mask(spec, rows, cols):
    g = _rng(spec["seed"])
    u = g.random((rows, cols))
    m = np.zeros((rows, cols), dtype=np.int16)
    m[u < spec["p_invalid"]] = 2  # valid_pixels + no_data_mask + 1
    m[(u >= spec["p_invalid"]) & (u < spec["p_invalid"] + spec["p_nodata"])] = 1  # no_data_mask
    for r, c in spec.get("invalid", []):
        m[r, c] = 2
    for r, c in spec.get("nodata", []):
        m[r, c] = 1
    return m


def _grid(spec, rows, cols):
    g = _rng(spec["seed"])
    lo, hi = spec["lo"], spec["hi"]
    dmin = g.integers(lo, hi + 1, size=(rows, cols))
    width = g.integers(0, hi - lo + 1, size=(rows, cols))
    dmax = np.minimum(dmin + width, hi)
    mode = spec.get("mode", "both")
    if mode == "min_uniform":  # only the upper bound varies from pixel to pixel
        dmin = np.full((rows, cols), lo)
    elif mode == "max_uniform":  # only the lower bound varies
        dmax = np.full((rows, cols), hi)
    return np.stack([dmin, dmax]).astype(np.float32)


def disp_bounds(w, side="left"):
    """global integer interval [min, max] searched on that side"""
    d = w["disp"] if side == "left" else w.get("disp_right")
    if side == "right" and d is None:
        lo, hi = disp_bounds(w, "left")
        return -hi, -lo
    if d["kind"] == "scalar":
        return d["min"], d["max"]
    grid = _grid(d, w["rows"], w["cols"])
    return int(grid[0].min()), int(grid[1].max())


def _coords(w):
    """row / col coordinates: 0-based, or starting at an offset as for a dataset read through a ROI"""
    ro, co = w.get("coord_off") or (0, 0)
    return np.arange(ro, ro + w["rows"]), np.arange(co, co + w["cols"])


def build_side(w, side):
    rows, cols, bands = w["rows"], w["cols"], w["bands"]
    crow, ccol = _coords(w)
    left_im = _image(w["left"], rows, cols, bands)
    im = left_im if side == "left" else _right_image(w["right"], left_im, rows, cols, bands)
    if w.get("level"):
        # radiometric level: the same content on top of a large constant (12/16-bit imagery with little contrast)
        im = (im + np.float32(w["level"])).astype(np.float32)
    names = w.get("band_names") or BAND_NAMES[:bands]
    if bands == 1:
        ds = xr.Dataset(
            {"im": (["row", "col"], im[0].copy())}, coords={"row": crow, "col": ccol}
        )
    else:
        ds = xr.Dataset(
            {"im": (["band_im", "row", "col"], im.copy())},
            coords={"band_im": list(names), "row": crow, "col": ccol},
        )
    geo = w.get("georef")
    if geo:
        from rasterio import Affine
        from rasterio.crs import CRS

        crs = CRS.from_string(geo["crs"])
        transform = Affine(*(geo.get("transform_right", geo["transform"]) if side == "right" else geo["transform"]))
    else:
        crs, transform = None, None
    ds.attrs = {"crs": crs, "transform": transform, "valid_pixels": 0, "no_data_mask": 1}
    d = w["disp"] if side == "left" else w.get("disp_right")
    if d is not None:
        ds.coords["band_disp"] = ["min", "max"]
        if d["kind"] == "scalar":
            ds["disparity"] = xr.DataArray(
                np.array([np.full((rows, cols), d["min"]), np.full((rows, cols), d["max"])]),
                dims=["band_disp", "row", "col"],
            )
            ds.attrs["disparity_source"] = [d["min"], d["max"]]
        else:
            ds["disparity"] = xr.DataArray(_grid(d, rows, cols), dims=["band_disp", "row", "col"])
            ds.attrs["disparity_source"] = f"{side}_disparity_grid.tif"
    else:
        ds.attrs["disparity_source"] = None
    ds.attrs["no_data_img"] = -9999
    m = w.get("mask_" + side)
    if m is not None:
        msk = _mask(m, rows, cols)
        ds["msk"] = xr.DataArray(msk, dims=["row", "col"])
        # nodata pixels carry the nodata value in the image, as create_dataset_from_inputs would have found them
        if bands == 1:
            ds["im"].data[msk == 1] = -9999
        else:
            ds["im"].data[:, msk == 1] = -9999
    return ds


def build_meta(w, side):
    """get_metadata-style dataset: coords band_im/row/col, disparity, attrs disparity_source."""
    rows, cols, bands = w["rows"], w["cols"], w["bands"]
    names = (w.get("band_names") or BAND_NAMES[:bands]) if bands > 1 else [None]
    crow, ccol = _coords(w)
    ds = xr.Dataset(data_vars={}, coords={"band_im": list(names), "row": crow, "col": ccol})
    full = build_side(w, side)
    if "disparity" in full:
        ds.coords["band_disp"] = ["min", "max"]
        ds["disparity"] = full["disparity"].copy(deep=True)
    ds.attrs["disparity_source"] = copy.deepcopy(full.attrs["disparity_source"])
    return ds


def build(w):
    return {
        "left": build_side(w, "left"),
        "right": build_side(w, "right"),
        "meta_left": build_meta(w, "left"),
        "meta_right": build_meta(w, "right"),
    }


def mirror(w):
    """The mirrored problem of C08: images and masks exchanged, interval negated and swapped."""
    m = copy.deepcopy(w)
    m["__mirror__"] = True
    return m


def build_mirrored(w):
    """Datasets of the mirrored problem, built from the original datasets (exact same arrays, roles exchanged)."""
    a = build(w)
    lo, hi = disp_bounds(w, "left")
    left = a["right"].copy(deep=True)
    right = a["left"].copy(deep=True)
    rows, cols = w["rows"], w["cols"]
    # left of the mirrored problem searches what the right pass of the original searched
    for ds in (left, right):
        if "disparity" in ds:
            ds = ds.drop_vars("disparity")
    left = left.drop_vars("disparity") if "disparity" in left else left
    right = right.drop_vars("disparity") if "disparity" in right else right
    if w["disp"]["kind"] == "scalar":
        left.coords["band_disp"] = ["min", "max"]
        left["disparity"] = xr.DataArray(
            np.array([np.full((rows, cols), -hi), np.full((rows, cols), -lo)]), dims=["band_disp", "row", "col"]
        )
        left.attrs["disparity_source"] = [-hi, -lo]
        right.attrs["disparity_source"] = None
        if "band_disp" in right.coords:
            right = right.drop_vars("band_disp")
    else:
        # grids: original right grid (explicit) becomes the left grid, and conversely
        if w.get("disp_right") is None:
            raise ValueError("mirroring a left-grid world needs an explicit right grid")
        left.coords["band_disp"] = ["min", "max"]
        right.coords["band_disp"] = ["min", "max"]
        left["disparity"] = a["right"]["disparity"].copy(deep=True)
        right["disparity"] = a["left"]["disparity"].copy(deep=True)
        left.attrs["disparity_source"] = "left_disparity_grid.tif"
        right.attrs["disparity_source"] = "right_disparity_grid.tif"

    def meta(full):
        bands = w["bands"]
        names = (w.get("band_names") or BAND_NAMES[:bands]) if bands > 1 else [None]
        crow, ccol = _coords(w)
        ds = xr.Dataset(data_vars={}, coords={"band_im": list(names), "row": crow, "col": ccol})
        if "disparity" in full:
            ds.coords["band_disp"] = ["min", "max"]
            ds["disparity"] = full["disparity"].copy(deep=True)
        ds.attrs["disparity_source"] = copy.deepcopy(full.attrs["disparity_source"])
        return ds

    return {"left": left, "right": right, "meta_left": meta(left), "meta_right": meta(right)}
