"""
C12 monitor: confidence bands follow their definitions, bracket the winner, only add bands.   DESIGN.md §5 (C12)
"""
import math

import numpy as np

from sim.pipeline import INVALID_BITS
from sim import probes

EPS = 1e-5


def expected_labels(method, sfx):
    if method == "ambiguity":
        return ["confidence_from_ambiguity" + sfx]
    if method == "std_intensity":
        return ["confidence_from_intensity_std" + sfx]
    if method == "risk":
        return ["confidence_from_risk_max" + sfx, "confidence_from_risk_min" + sfx]
    if method == "interval_bounds":
        return ["confidence_from_interval_bounds_inf" + sfx, "confidence_from_interval_bounds_sup" + sfx]
    raise ValueError(method)


def n_etas_ambiguous(eta_max, eta_step):
    q = eta_max / eta_step
    return abs(q - round(q)) < 1e-3


def etas64(eta_max, eta_step):
    return np.arange(0.0, float(np.float32(eta_max)), float(np.float32(eta_step)))


class ConfidenceMonitor:
    def __init__(self, ctx, rec):
        self.ctx = ctx
        self.rec = rec
        self.ib_steps = {"left": [], "right": []}

    def v(self, cls, ev, side, **kw):
        sig = {"method": self.ctx.params.get(ev["name"], {}).get("confidence_method"), **kw.pop("sig", {})}
        self.rec.violation("C12." + cls, sig=sig, step=ev["name"], side=side, seq=ev["seq"], **kw)

    def after(self, ev, pre, post, machine):
        if ev["phase"] != "run" or post is None:
            return
        sides = ["left"] + (["right"] if machine.right_disp_map == "cross_checking_accurate" else [])
        if ev["kind"] == "cost_volume_confidence":
            for side in sides:
                self.conf_event(ev, side, pre[side], post[side], machine)
        elif ev["kind"] == "aggregation":
            # bounds computed before an aggregation describe another cost volume than the one WTA will read
            self.ib_steps = {"left": [], "right": []}
        elif ev["kind"] == "disparity":
            for side in sides:
                self.bracket(ev, side, post[side])

    # -----------------------------------------------------------------------------------------------------------
    def conf_event(self, ev, side, pre, post, machine):
        ctx = self.ctx
        cfgp = ctx.cfg["pipeline"][ev["name"]]
        method = cfgp["confidence_method"]
        # the suffix is what follows the step kind in the step name
        sfx = "." + ev["name"].split(".", 1)[1] if "." in ev["name"] else ""
        a, b = pre["cv"], post["cv"]
        if a is None or b is None:
            return
        la = a.get("indicator", []) if "confidence_measure" in a else []
        lb = b.get("indicator", [])
        new = expected_labels(method, sfx)
        if lb != la + new:
            self.v("labels", ev, side, got=lb, expected=la + new, sig={})
            return
        if not (probes._canon(a["cost_volume"]).tobytes() == probes._canon(b["cost_volume"]).tobytes()):
            self.v("cost_volume_changed", ev, side)
            return
        if la:
            if not probes._canon(a["confidence_measure"]).tobytes() == probes._canon(
                b["confidence_measure"][:, :, : len(la)]
            ).tobytes():
                self.v("earlier_band_changed", ev, side)
                return
        if (a["validity_mask"] != b["validity_mask"]).any():
            self.v("mask_changed", ev, side)
            return
        ctx.bump("confidence_events_checked")
        ctx.probe("band_appended_to_existing_bands", int(bool(la)))
        cv = b["cost_volume"].astype(np.float64)
        finite = cv[np.isfinite(cv)]
        if finite.size == 0 or finite.min() == finite.max():
            ctx.probe("precondition_not_met_fewer_than_2_distinct_costs")
            return
        bands = {lab: b["confidence_measure"][:, :, len(la) + i] for i, lab in enumerate(new)}
        tmeasure = b["attrs"].get("type_measure")
        if method == "std_intensity":
            self.std_intensity(ev, side, bands[new[0]], b, machine)
        elif method == "ambiguity":
            self.ambiguity(ev, side, bands[new[0]], cv, cfgp, tmeasure)
        elif method == "risk":
            self.risk(ev, side, bands[new[0]], bands[new[1]], cv, cfgp, tmeasure)
        elif method == "interval_bounds":
            self.ib_steps[side].append((new[0], new[1], dict(cfgp)))
            self.interval_bounds(ev, side, bands[new[0]], bands[new[1]], cv, b["disp"].astype(np.float64), cfgp,
                                 tmeasure)

    # -----------------------------------------------------------------------------------------------------------
    def std_intensity(self, ev, side, band, cvs, machine):
        img = machine.left_img if side == "left" else machine.right_img
        ws = int(cvs["attrs"]["window_size"])
        bc = cvs["attrs"].get("band_correl")
        data = img["im"].data
        if data.ndim == 3:
            data = data[list(img.coords["band_im"].data).index(bc)]
        # the implementation squares the float32 samples in float32 before averaging in float64: the rounding of those
        # squares (none for integer samples below 4096, up to 128 at level 60000) bounds what it can know of E[x^2]
        sq_err = np.abs((data.astype(np.float32) ** 2).astype(np.float64) - data.astype(np.float64) ** 2)
        data = data.astype(np.float64)
        rows, cols = data.shape
        h = (ws - 1) // 2
        lmax2 = float(np.abs(data).max()) ** 2
        d64 = 4e-16 * (rows * rows + cols * cols * ws) * lmax2  # float64 cumulative sums of the integral images
        for r in range(rows):
            for c in range(cols):
                g = float(band[r, c])
                if r < h or c < h or r > rows - 1 - h or c > cols - 1 - h:
                    if not math.isnan(g):
                        self.v("std_border_not_nan", ev, side, pixel=[r, c])
                        return
                    continue
                win = data[r - h:r + h + 1, c - h:c + h + 1]
                exp = float(win.std())
                dvar = float(sq_err[r - h:r + h + 1, c - h:c + h + 1].mean()) + d64
                tol = (math.sqrt(dvar) if exp * exp <= dvar else dvar / exp) + max(1e-5, 4e-7 * exp)
                if not math.isfinite(g) or abs(g - exp) > tol:
                    self.v("std_intensity_value", ev, side, pixel=[r, c], got=g, expected=exp)
                    return
        self.ctx.bump("std_intensity_checked")

    def _norm(self, cv):
        mn, mx = np.nanmin(cv), np.nanmax(cv)
        return (cv - mn) / (mx - mn)

    def _counts(self, ncv, etas, eps, count_nan):
        """raw ambiguity integral per pixel with the comparison shifted by eps; NaN costs counted or not"""
        rows, cols, nd = ncv.shape
        best = np.nanmin(np.where(np.isnan(ncv), np.inf, ncv), axis=2)
        out = np.zeros((rows, cols))
        allnan = np.isnan(ncv).all(axis=2)
        for e in etas:
            within = ncv <= (best + e + eps)[:, :, None]
            if eps < 0:
                # costs exactly equal to the pixel's best are within every eta whatever the rounding
                within = within | (ncv == best[:, :, None])
            if count_nan:
                within = within | np.isnan(ncv)
            out += within.sum(axis=2)
        out[allnan] = len(etas) * nd
        return out, allnan

    def ambiguity(self, ev, side, band, cv, cfgp, tmeasure):
        ctx = self.ctx
        normalized = bool(cfgp["normalization"])
        g = band.astype(np.float64)
        if normalized:
            if not np.isfinite(g).all():
                p = np.argwhere(~np.isfinite(g))[0]
                # signature: is the raw ambiguity (as the kernel counts it) constant over the image after clipping?
                # (counted by the kernel itself, in its float32 arithmetic and with its sign convention for similarity
                # measures: a float64 recount can tell apart costs that are equal for the kernel, e.g. zncc against a
                # linear ramp, where every disparity has the same cost up to the last bit)
                try:
                    from pandora.cost_volume_confidence.ambiguity import Ambiguity

                    a32 = np.ascontiguousarray(cv, dtype=np.float32)
                    raw = np.asarray(Ambiguity.compute_ambiguity(
                        -a32 if tmeasure == "max" else a32, np.float32(0.0), np.float32(cfgp["eta_max"]),
                        np.float32(cfgp["eta_step"])), dtype=np.float64)
                except Exception:  # noqa
                    raw, _ = self._counts(self._norm(cv), etas64(cfgp["eta_max"], cfgp["eta_step"]), 0.0, True)
                cl = np.clip(raw, np.percentile(raw, 1.0), np.percentile(raw, 99.0))
                self.v("ambiguity_not_finite", ev, side, pixel=p.tolist(),
                       sig={"normalization": True, "raw_ambiguity_constant_after_clipping": bool(cl.max() == cl.min())})
                return
            if (g < -1e-6).any() or (g > 1 + 1e-6).any():
                p = np.argwhere((g < -1e-6) | (g > 1 + 1e-6))[0]
                self.v("ambiguity_out_of_0_1", ev, side, pixel=p.tolist(), got=float(g[p[0], p[1]]))
                return
        if n_etas_ambiguous(cfgp["eta_max"], cfgp["eta_step"]):
            ctx.probe("eta_sample_count_ambiguous_values_not_asserted")
            return
        etas = etas64(cfgp["eta_max"], cfgp["eta_step"])
        ncv = self._norm(cv)
        if tmeasure == "max":
            # for a similarity measure the pixel's best is its largest cost: mirror the normalised curve
            ncv = 1.0 - ncv
            ctx.probe("ambiguity_on_max_measure")
        lo_nan, _ = self._counts(ncv, etas, -EPS, True)
        hi_nan, _ = self._counts(ncv, etas, +EPS, True)
        lo_fin, _ = self._counts(ncv, etas, -EPS, False)
        if not normalized:
            # confidence = 1 - raw ; raw within [count of finite costs (eps-shifted), count incl. NaN costs]
            raw = 1.0 - g
            bad = (raw < lo_fin - 0.5) | (raw > hi_nan + 0.5)
            if bad.any():
                p = np.argwhere(bad)[0]
                self.v("ambiguity_value", ev, side, pixel=p.tolist(), got=float(raw[p[0], p[1]]),
                       bracket=[float(lo_fin[p[0], p[1]]), float(hi_nan[p[0], p[1]])],
                       sig={"normalization": False, "type_measure": tmeasure})
                return
            ctx.bump("ambiguity_raw_checked")
            return
        if (lo_nan != hi_nan).any():
            ctx.probe("cost_on_eta_boundary_values_not_asserted")
            return
        raw = hi_nan
        pmin, pmax = np.percentile(raw, 1.0), np.percentile(raw, 99.0)
        cl = np.clip(raw, pmin, pmax)
        if cl.max() == cl.min():
            ctx.probe("ambiguity_constant_after_clipping")
            return
        exp = 1 - (cl - cl.min()) / (cl.max() - cl.min())
        if (np.abs(exp - g) > 1e-4).any():
            p = np.argwhere(np.abs(exp - g) > 1e-4)[0]
            self.v("ambiguity_value", ev, side, pixel=p.tolist(), got=float(g[p[0], p[1]]),
                   expected=float(exp[p[0], p[1]]), sig={"normalization": True, "type_measure": tmeasure})
            return
        ctx.bump("ambiguity_normalized_checked")

    def risk(self, ev, side, rmax, rmin, cv, cfgp, tmeasure):
        ctx = self.ctx
        allnan = np.isnan(cv).all(axis=2)
        a, b = rmax.astype(np.float64), rmin.astype(np.float64)
        if (np.isnan(a) != allnan).any() or (np.isnan(b) != allnan).any():
            p = np.argwhere((np.isnan(a) != allnan) | (np.isnan(b) != allnan))[0]
            self.v("risk_nan_pattern", ev, side, pixel=p.tolist())
            return
        ok = ~allnan
        if (b[ok] < -1e-5).any() or (b[ok] > a[ok] + 1e-5).any():
            bad = ok & ((b < -1e-5) | (b > a + 1e-5))
            p = np.argwhere(bad)[0]
            self.v("risk_order", ev, side, pixel=p.tolist(), risk_min=float(b[p[0], p[1]]), risk_max=float(a[p[0], p[1]]))
            return
        ctx.bump("risk_order_checked")
        if n_etas_ambiguous(cfgp["eta_max"], cfgp["eta_step"]):
            ctx.probe("risk_values_not_asserted")
            return
        etas = etas64(cfgp["eta_max"], cfgp["eta_step"])
        ncv = self._norm(cv)
        if tmeasure == "max":
            ncv = 1.0 - ncv
        rows, cols, nd = ncv.shape
        idx = np.arange(nd)
        for r in range(rows):
            for c in range(cols):
                if allnan[r, c]:
                    continue
                x = ncv[r, c]
                best = np.nanmin(x)
                spreads, mins = [], []
                amb = False
                for e in etas:
                    wl = np.isnan(x) | (x <= best + e - EPS) | (x == best)
                    wh = np.isnan(x) | (x <= best + e + EPS)
                    if (wl != wh).any():
                        amb = True
                        break
                    ii = idx[wh]
                    s = ii.max() - ii.min()
                    spreads.append(s)
                    mins.append(1 + s - wh.sum())
                if amb:
                    ctx.probe("cost_on_eta_boundary_values_not_asserted")
                    continue
                e1, e2 = float(np.mean(spreads)), float(np.mean(mins))
                if abs(a[r, c] - e1) > 1e-3 * max(1, e1) or abs(b[r, c] - e2) > 1e-3 * max(1, abs(e2)):
                    self.v("risk_value", ev, side, pixel=[r, c], got=[float(a[r, c]), float(b[r, c])], expected=[e1, e2],
                           sig={"type_measure": tmeasure})
                    return
        ctx.bump("risk_values_checked")

    def _ib_ranges(self, cv, disp, thr, tmeasure):
        """per pixel: (inf_lo, inf_hi, sup_lo, sup_hi) admissible values, NaN where all costs are NaN"""
        tf = -1.0 if tmeasure == "min" else 1.0
        ncv = self._norm(cv)
        rows, cols, nd = ncv.shape
        out = np.full((rows, cols, 4), np.nan)
        for r in range(rows):
            for c in range(cols):
                x = tf * ncv[r, c]
                if np.isnan(x).all():
                    continue
                poss = x + 1 - np.nanmax(x)
                fin = ~np.isnan(poss)
                s_lo = np.where(fin & (poss >= thr + EPS))[0]
                s_hi = np.where(fin & (poss >= thr - EPS))[0]
                best = fin & (poss >= 1 - EPS)
                if len(s_hi) == 0:
                    continue
                i0h, i1h = s_hi.min(), s_hi.max()
                if len(s_lo) == 0:
                    # every admissible disparity sits on the threshold boundary: the implementation's set is some
                    # non-empty subset of s_hi
                    self.ctx.probe("possibility_on_threshold_boundary")
                    i0l, i1l = i1h, i0h
                else:
                    i0l, i1l = s_lo.min(), s_lo.max()
                lo_inf = max(0, i0h - 1) if best[i0h] else i0h
                hi_sup = min(nd - 1, i1h + 1) if best[i1h] else i1h
                # widening may also apply to the eps-tight set's extreme
                hi_inf = i0l
                lo_sup = i1l
                out[r, c] = (disp[lo_inf], disp[hi_inf], disp[lo_sup], disp[hi_sup])
        return out

    def interval_bounds(self, ev, side, inf, sup, cv, disp, cfgp, tmeasure):
        ctx = self.ctx
        thr = float(cfgp["possibility_threshold"])
        rng = self._ib_ranges(cv, disp, thr, tmeasure)
        reg = bool(cfgp.get("regularization"))
        q = float(cfgp.get("quantile_regularization", 1.0))
        a, b = inf.astype(np.float64), sup.astype(np.float64)
        rows, cols = a.shape
        for r in range(rows):
            for c in range(cols):
                lo_inf, hi_inf, lo_sup, hi_sup = rng[r, c]
                if math.isnan(lo_inf):
                    continue
                if math.isnan(a[r, c]) or math.isnan(b[r, c]):
                    self.v("interval_bound_nan_on_computable_pixel", ev, side, pixel=[r, c], sig={"reg": reg})
                    return
                if not reg:
                    if not (lo_inf - 1e-6 <= a[r, c] <= hi_inf + 1e-6 and lo_sup - 1e-6 <= b[r, c] <= hi_sup + 1e-6):
                        self.v("interval_bounds_value", ev, side, pixel=[r, c], got=[float(a[r, c]), float(b[r, c])],
                               admissible=[lo_inf, hi_inf, lo_sup, hi_sup], sig={"reg": False})
                        return
                elif q == 1.0:
                    # regularisation with quantile 1 can only widen
                    if a[r, c] > hi_inf + 1e-6 or b[r, c] < lo_sup - 1e-6:
                        self.v("regularisation_narrowed_interval", ev, side, pixel=[r, c],
                               got=[float(a[r, c]), float(b[r, c])], admissible=[lo_inf, hi_inf, lo_sup, hi_sup],
                               sig={"reg": True})
                        return
        ctx.bump("interval_bounds_checked")
        ctx.probe("interval_regularisation_q1", int(reg and q == 1.0))

    # -----------------------------------------------------------------------------------------------------------
    def bracket(self, ev, side, post):
        dm = post["disp"]
        if dm is None or "confidence_measure" not in dm:
            return
        labels = dm["indicator"]
        mask = dm["validity_mask"].astype(np.int64)
        d = dm["disparity_map"].astype(np.float64)
        valid = ((mask & INVALID_BITS) == 0) & np.isfinite(d)
        cv = post["cv"]["cost_volume"].astype(np.float64) if post["cv"] is not None else None
        if cv is not None:
            finite = cv[np.isfinite(cv)]
            if finite.size == 0 or finite.min() == finite.max():
                return
        for inf_l, sup_l, cfgp in self.ib_steps[side]:
            if cfgp.get("regularization") and float(cfgp.get("quantile_regularization", 1.0)) != 1.0:
                continue
            if inf_l not in labels or sup_l not in labels:
                self.v("interval_band_missing_after_disparity", ev, side, sig={"band": inf_l})
                return
            a = dm["confidence_measure"][:, :, labels.index(inf_l)].astype(np.float64)
            b = dm["confidence_measure"][:, :, labels.index(sup_l)].astype(np.float64)
            bad = valid & ~((a <= d) & (d <= b))
            if bad.any():
                p = np.argwhere(bad)[0]
                self.v("winner_not_bracketed", ev, side, pixel=p.tolist(), disp=float(d[p[0], p[1]]),
                       bounds=[float(a[p[0], p[1]]), float(b[p[0], p[1]])], sig={"reg": bool(cfgp.get("regularization"))})
                return
            self.ctx.bump("winner_bracket_checked")
