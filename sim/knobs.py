"""Tuning-knob seam (DESIGN §4.2): the simulator picks the internal block sizes through pandora._verif (guarded hook)."""


def set_knobs(values):
    from pandora import _verif

    _verif._knobs.clear()
    if values:
        _verif._knobs.update({k: int(v) for k, v in values.items()})


def enabled():
    from pandora import _verif

    return _verif.ENABLED
