"""
C04 monitors: validity flags, NaN costs and invalid disparities tell one coherent story.   DESIGN.md §5 (C04)

(a) invalid flag (bits 0,1,6,7) <=> all costs NaN <=> disparity == invalid_disparity, up to the first validation step
(b) after matching_cost each of bits 0, 6, 7, 2, 1 equals an independent per-pixel evaluation of its documented cause
(c) frame rule per step kind: a step only adds its own documented bits, never clears or alters another one
"""
import numpy as np

from sim.pipeline import INVALID_BITS, is_invalid_value
from sim import programs

B0, B1, B2, B3, B4, B5, B6, B7, B8, B9, B10, B11 = (1 << i for i in range(12))
PRE_VALIDATION_INVALID = B0 | B1 | B6 | B7


def _first_pixel(cond):
    idx = np.argwhere(cond)
    return [int(x) for x in idx[0]] if len(idx) else None


class FlagMonitor:
    def __init__(self, ctx, rec, check_causes=True):
        self.ctx = ctx
        self.rec = rec
        self.check_causes = check_causes
        self.validated = {"left": False, "right": False}

    def v(self, cls, ev, side, **kw):
        self.rec.violation("C04." + cls, sig={"kind": ev["kind"], **kw.pop("sig", {})}, step=ev["name"], side=side,
                           seq=ev["seq"], **kw)

    # -----------------------------------------------------------------------------------------------------------
    def after(self, ev, pre, post, machine):
        if ev["phase"] != "run" or post is None:
            return
        kind = ev["kind"]
        sides = ["left"] + (["right"] if machine.right_disp_map == "cross_checking_accurate" else [])
        for side in sides:
            self.frame_rule(ev, kind, side, pre[side], post[side])
            if kind == "validation":
                self.validated[side] = True
                continue
            if not self.validated[side]:
                self.story(ev, kind, side, post[side])
            if kind == "matching_cost" and self.check_causes and (machine.num_scales or 1) == 1:
                self.causes(ev, side, post[side], machine)

    # ------------------------------------------------------------------------------------------ (a)
    def story(self, ev, kind, side, post):
        cv, dm = post["cv"], post["disp"]
        if cv is None or "cost_volume" not in cv:
            return
        mask_cv = cv["validity_mask"]
        all_nan = np.isnan(cv["cost_volume"]).all(axis=2)
        flagged = (mask_cv & PRE_VALIDATION_INVALID) != 0
        self.ctx.probe("all_nan_pixel", int(all_nan.any()))
        if dm is None or "disparity_map" not in dm:
            if (flagged != all_nan).any():
                p = _first_pixel(flagged != all_nan)
                self.v("flag_vs_nan", ev, side, pixel=p, mask=int(mask_cv[p[0], p[1]]),
                       sig={"flagged": bool(flagged[p[0], p[1]])})
            return
        mask = dm["validity_mask"]
        flagged = (mask & PRE_VALIDATION_INVALID) != 0
        inv = is_invalid_value(dm["disparity_map"], self.ctx.invalid_disparity)
        if (flagged != all_nan).any():
            p = _first_pixel(flagged != all_nan)
            self.v("flag_vs_nan", ev, side, pixel=p, mask=int(mask[p[0], p[1]]),
                   sig={"flagged": bool(flagged[p[0], p[1]])})
        if (flagged != inv).any():
            p = _first_pixel(flagged != inv)
            self.v("flag_vs_invalid_disparity", ev, side, pixel=p, mask=int(mask[p[0], p[1]]),
                   disp=float(dm["disparity_map"][p[0], p[1]]), sig={"flagged": bool(flagged[p[0], p[1]])})

    # ------------------------------------------------------------------------------------------ (c)
    def frame_rule(self, ev, kind, side, pre, post):
        which = "disp" if kind in ("disparity", "filter", "refinement", "validation", "multiscale") else "cv"
        a, b = pre.get(which), post.get(which)
        if b is None or "validity_mask" not in b:
            return
        mb = b["validity_mask"].astype(np.int64)
        if (mb >= 4096).any() or (mb < 0).any():
            p = _first_pixel((mb >= 4096) | (mb < 0))
            self.v("undocumented_bit", ev, side, pixel=p, mask=int(mb[p[0], p[1]]))
            return
        off = int(b["attrs"].get("offset_row_col") or 0)
        border = np.zeros(mb.shape, bool)
        if off > 0 and kind != "multiscale":
            border = np.ones(mb.shape, bool)
            border[off:-off, off:-off] = False
            # bit 11 is the documented own bit of median_for_intervals regularisation, which marks whole horizontal
            # segments including border columns (C10 allows it on any pixel); every other bit must be exactly bit 0
            if ((mb[border] & ~B11) != B0).any():
                self.v("border_not_bit0_only", ev, side, pixel=_first_pixel(border & ((mb & ~B11) != B0)))
        if kind == "matching_cost":
            return
        if kind == "disparity":
            cvm = post["cv"]["validity_mask"].astype(np.int64)
            if (cvm != mb).any():
                self.v("disparity_does_not_copy_mask", ev, side, pixel=_first_pixel(cvm != mb))
            return
        if a is None or "validity_mask" not in a:
            return
        ma = a["validity_mask"].astype(np.int64)
        if ma.shape != mb.shape:
            return
        changed = ma ^ mb
        if kind in ("aggregation", "optimization", "semantic_segmentation", "cost_volume_confidence"):
            allowed = 0
        elif kind == "refinement":
            allowed = B3
        elif kind == "filter":
            meth = self.ctx.params[ev["name"]].get("filter_method")
            allowed = B11 if meth == "median_for_intervals" else 0
        elif kind == "validation":
            allowed = B8 | B9 | B4 | B5
        else:
            return
        bad = (changed & ~allowed) != 0
        if kind == "validation" and off > 0:
            # validation re-asserts 'border pixels end with bit 0 only': bit 11 may disappear there
            bad &= ~(border & ((changed & ~allowed) == B11))
        if bad.any():
            p = _first_pixel(bad)
            self.v("foreign_bit_changed", ev, side, pixel=p, before=int(ma[p[0], p[1]]), after=int(mb[p[0], p[1]]),
                   sig={"bits": int(changed[p[0], p[1]] & ~allowed)})
            return
        # information bits are only ever added
        cleared = ma & ~mb
        keep = B2 | B3 | B4 | B5 | B10 | B11 | B0 | B1 | B6 | B7
        badc = (cleared & keep) != 0
        if kind == "validation" and off > 0:
            badc &= ~(border & ((cleared & keep) == B11))
        if badc.any():
            p = _first_pixel(badc)
            self.v("bit_cleared", ev, side, pixel=p, before=int(ma[p[0], p[1]]), after=int(mb[p[0], p[1]]),
                   sig={"bits": int(cleared[p[0], p[1]] & keep)})
        if kind == "validation":
            both = ((mb & B8) != 0) & ((mb & B9) != 0)
            if both.any():
                self.v("occlusion_and_mismatch", ev, side, pixel=_first_pixel(both))
            # pixels invalid for another reason than 8/9 are not re-examined
            other = (ma & PRE_VALIDATION_INVALID) != 0
            ch = np.where(border, changed & ~B11, changed)
            if (ch[other] != 0).any():
                self.v("invalid_pixel_reexamined", ev, side, pixel=_first_pixel(other & (ch != 0)))
            # 8/9 may only be cleared in exchange for 4/5 (filling), sgm may turn 9 into 8 first
            c8 = ((ma & B8) != 0) & ((mb & B8) == 0)
            c9 = ((ma & B9) != 0) & ((mb & B9) == 0)
            bad8 = c8 & ((mb & B4) == 0)
            bad9 = c9 & ((mb & (B5 | B8 | B4)) == 0)
            if bad8.any() or bad9.any():
                self.v("flag_dropped_without_fill", ev, side, pixel=_first_pixel(bad8 | bad9))
            self.ctx.probe("occlusion_or_mismatch_flagged", int(((mb & (B8 | B9)) != 0).any()))
            self.ctx.probe("filled_pixel", int(((mb & (B4 | B5)) != 0).any()))
        if kind == "refinement":
            self.ctx.probe("bit3_raised", int(((mb & B3) != 0).any()))
            self.ctx.probe("refinement_on_already_bit3", int(((ma & B3) != 0).any()))
        if kind == "validation":
            self.ctx.probe("validation_on_already_filled", int(((ma & (B4 | B5)) != 0).any()))

    # ------------------------------------------------------------------------------------------ (b)
    def causes(self, ev, side, post, machine):
        cv = post["cv"]
        if cv is None or "cost_volume" not in cv:
            return
        ds = self.ctx.ds
        img = ds["left"] if side == "left" else ds["right"]
        oth = ds["right"] if side == "left" else ds["left"]
        mask = cv["validity_mask"].astype(np.int64)
        rows, cols = mask.shape
        off = int(cv["attrs"]["offset_row_col"])
        ws = int(cv["attrs"]["window_size"])
        disp = cv["disp"]
        dmin, dmax = int(disp[0]), int(disp[-1])
        n = dmax - dmin + 1
        lm = img["msk"].data if "msk" in img else None
        rm = oth["msk"].data if "msk" in oth else None
        if side == "left":
            gmin, gmax = machine.disp_min, machine.disp_max
        else:
            gmin, gmax = machine.right_disp_min, machine.right_disp_max
        gmin = np.broadcast_to(np.asarray(gmin, dtype=float), (rows, cols))
        gmax = np.broadcast_to(np.asarray(gmax, dtype=float), (rows, cols))
        all_nan = np.isnan(cv["cost_volume"]).all(axis=2)
        subpix = int(cv["attrs"]["subpixel"])
        h = (ws - 1) // 2

        def win_has_nodata(m, r, c):
            if m is None:
                return False
            return bool((m[max(0, r - h): r + h + 1, max(0, c - h): c + h + 1] == 1).any())

        def centre_invalid(m, r, c):
            return m is not None and m[r, c] not in (0, 1)

        for r in range(off, rows - off):
            for c in range(off, cols - off):
                got = int(mask[r, c])
                e0 = win_has_nodata(lm, r, c)
                e6 = centre_invalid(lm, r, c)
                cand = [d for d in range(dmin, dmax + 1) if off <= c + d <= cols - 1 - off]
                e2 = 0 < len(cand) < n
                e7 = bool(cand) and rm is not None and all(centre_invalid(rm, r, c + d) for d in cand)
                e1 = bool(all_nan[r, c])
                exp = {0: e0, 6: e6, 7: e7, 1: e1}
                if cand:  # when the whole interval is outside, bit 2 is left to the implementation (ambiguous wording)
                    exp[2] = e2
                for bit, e in exp.items():
                    if bool(got & (1 << bit)) != bool(e):
                        self.v("cause_mismatch", ev, side, pixel=[r, c], mask=got,
                               sig={"bit": bit, "expected": bool(e)}, interval=[dmin, dmax], window=ws)
                        return
                # independent evaluation of 'no disparity yields a computable cost' on the integer samples
                comp_int = False
                if not e0 and not e6:
                    for d in cand:
                        if d < gmin[r, c] or d > gmax[r, c]:
                            continue
                        if win_has_nodata(rm, r, c + d) or centre_invalid(rm, r, c + d):
                            continue
                        comp_int = True
                        break
                if comp_int and e1:
                    self.v("computable_but_all_nan", ev, side, pixel=[r, c], mask=got, sig={})
                    return
                if subpix == 1 and not comp_int and not e1:
                    self.v("not_computable_but_cost", ev, side, pixel=[r, c], mask=got, sig={})
                    return
                if got & ~(B0 | B1 | B2 | B6 | B7):
                    self.v("unexpected_bit_after_matching_cost", ev, side, pixel=[r, c], mask=got, sig={})
                    return
        self.ctx.probe("bit0_nodata_window", int(((mask[off:rows - off, off:cols - off] & B0) != 0).any()) if rows > 2 * off else 0)
        self.ctx.probe("bit6_left_masked", int(((mask & B6) != 0).any()))
        self.ctx.probe("bit7_right_masked", int(((mask & B7) != 0).any()))
        self.ctx.probe("bit2_incomplete_range", int(((mask & B2) != 0).any()))
        self.ctx.probe("bit1_missing_range", int(((mask & B1) != 0).any()))
        self.ctx.bump("cause_pixels_checked", max(0, rows - 2 * off) * max(0, cols - 2 * off))
