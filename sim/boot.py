"""
Boot: build configuration, numba on-disk cache keyed on the whole pandora tree, import of pandora from
VERIF_REPO (default /repo), stub plugins.  DESIGN.md §3.2 / §4.

Must be imported (and boot() called) before anything imports pandora or numba.
"""
import hashlib
import os
import shutil
import sys

VERIF_DIR = os.path.dirname(os.path.dirname(os.path.abspath(__file__)))
REPO = os.environ.get("VERIF_REPO", "/repo")
CACHE_ROOT = os.environ.get("VERIF_CACHE", os.path.join(VERIF_DIR, ".cache"))

_booted = {}


def tree_hash(repo=REPO):
    """sha256 over every pandora/**/*.py (path and content), the deterministic identity of the tree under test."""
    h = hashlib.sha256()
    base = os.path.join(repo, "pandora")
    files = []
    for root, dirs, names in os.walk(base):
        dirs.sort()
        if "__pycache__" in root:
            continue
        for n in sorted(names):
            if n.endswith(".py"):
                files.append(os.path.join(root, n))
    for f in sorted(files):
        h.update(os.path.relpath(f, base).encode())
        h.update(b"\0")
        with open(f, "rb") as fh:
            h.update(fh.read())
        h.update(b"\0")
    return h.hexdigest()[:20]


def set_env(parallel="True", threads="1", layer="workqueue"):
    """Environment of the main harness: shipped default (parallel) build on one workqueue worker."""
    os.environ["PANDORA_NUMBA_PARALLEL"] = parallel
    os.environ["NUMBA_NUM_THREADS"] = str(threads)
    if layer:
        os.environ["NUMBA_THREADING_LAYER"] = layer
    os.environ["PANDORA_VERIF"] = "1"
    os.environ.setdefault("OMP_NUM_THREADS", "1")
    os.environ.setdefault("OPENBLAS_NUM_THREADS", "1")
    os.environ.setdefault("MKL_NUM_THREADS", "1")
    os.environ.setdefault("GDAL_NUM_THREADS", "1")


def ensure_hashseed():
    """Re-exec under PYTHONHASHSEED=0 so that set/dict-of-str iteration is not a hidden source of nondeterminism."""
    want = os.environ.get("VERIF_HASHSEED", "0")
    if os.environ.get("PYTHONHASHSEED") != want:
        os.environ["PYTHONHASHSEED"] = want
        os.execv(sys.executable, [sys.executable] + sys.argv)


def _prune_caches(keep):
    root = os.path.join(CACHE_ROOT, "numba")
    if not os.path.isdir(root):
        return
    entries = []
    for d in os.listdir(root):
        p = os.path.join(root, d)
        if os.path.isdir(p) and p != keep:
            try:
                entries.append((os.path.getmtime(p), p))
            except OSError:
                pass
    entries.sort()
    # keep at most 5 other trees (mutants come and go); disk is limited
    for _, p in entries[:-12] if len(entries) > 12 else []:
        shutil.rmtree(p, ignore_errors=True)


def boot(parallel="True", threads="1", layer="workqueue", cache=True, quiet=True):
    """
    Import pandora from REPO with the njit cache wrapper. Returns the pandora module.
    Idempotent within a process.
    """
    if _booted:
        return _booted["pandora"]
    set_env(parallel, threads, layer)
    th = tree_hash()
    import numba

    cache_dir = os.path.join(CACHE_ROOT, "numba", f"{th}-{parallel}-{numba.__version__}")
    if cache:
        os.makedirs(cache_dir, exist_ok=True)
        try:
            os.utime(cache_dir, None)
        except OSError:
            pass
        _prune_caches(cache_dir)
        os.environ["NUMBA_CACHE_DIR"] = cache_dir
        numba.config.CACHE_DIR = cache_dir
        real_njit = numba.njit

        def _cacheable(func):
            # kernels that take another jitted function as an argument cannot be reloaded from numba's on-disk
            # cache in a fresh process (ReferenceError: underlying object has vanished)
            ann = getattr(func, "__annotations__", {})
            return not any("Callable" in str(a) for a in ann.values())

        def njit_cached(*args, **kwargs):
            # bare decorator use: @njit
            if len(args) == 1 and callable(args[0]) and not kwargs:
                return real_njit(cache=_cacheable(args[0]))(args[0])
            kw = dict(kwargs)

            def deco(func):
                if _cacheable(func):
                    kw["cache"] = True
                else:
                    kw.pop("cache", None)
                return real_njit(*args, **kw)(func)

            return deco

        numba.njit = njit_cached

    if REPO not in sys.path:
        sys.path.insert(0, REPO)
    import warnings
    import logging

    if quiet:
        logging.disable(logging.CRITICAL)
        warnings.filterwarnings("ignore")
    import pandora  # noqa

    assert os.path.realpath(pandora.__file__).startswith(os.path.realpath(REPO)), (
        pandora.__file__,
        REPO,
    )
    if cache:
        numba.njit = real_njit
    if quiet:
        # pandora modules append to warnings.filters at import; reset to one catch-all ignore
        warnings.resetwarnings()
        warnings.filterwarnings("ignore")
    _booted["pandora"] = pandora
    _booted["tree_hash"] = th
    _booted["cache_dir"] = cache_dir
    from sim import stubs

    stubs.register()
    return pandora


def info():
    return {k: v for k, v in _booted.items() if k != "pandora"}
