"""Capture the actual arguments of the numba prange kernels during a real pipeline run (compiled code)."""
import copy

import numpy as np

_SITES = None


def discover_sites():
    """
    Every place (module attribute or class attribute) that holds a numba dispatcher whose Python source contains a prange
    loop: [(owner object, attribute name, raw attribute, dispatcher)].  A kernel imported by name into another module is
    patched there too, so that every caller goes through the capture wrapper.
    """
    global _SITES
    if _SITES is not None:
        return _SITES
    import inspect
    import sys

    from numba.core.registry import CPUDispatcher

    def has_prange(d):
        try:
            return "prange(" in inspect.getsource(d.py_func)
        except (OSError, TypeError):
            return False

    sites = []
    for modname in sorted(m for m in sys.modules if m == "pandora" or m.startswith("pandora.")):
        mod = sys.modules[modname]
        if mod is None:
            continue
        for name, obj in sorted(vars(mod).items(), key=lambda kv: kv[0]):
            if isinstance(obj, CPUDispatcher) and has_prange(obj):
                sites.append((mod, name, obj, obj))
            elif isinstance(obj, type) and getattr(obj, "__module__", "") == modname:
                for an, av in sorted(vars(obj).items(), key=lambda kv: kv[0]):
                    f = av.__func__ if isinstance(av, staticmethod) else av
                    if isinstance(f, CPUDispatcher) and has_prange(f):
                        sites.append((obj, an, av, f))
    _SITES = sites  # computed once (in the parent, before the scenario forks): source files are read a single time
    return sites


class Capture:
    def __init__(self, per_kernel=3):
        self.calls = {}  # qualname -> list of (args copy, compiled outputs copy)
        self.per_kernel = per_kernel
        self._saved = []

    def install(self):
        for owner, attr, raw, disp in discover_sites():
            qual = disp.py_func.__qualname__

            def make(disp=disp, qual=qual):
                def wrapper(*args):
                    lst = self.calls.setdefault(qual, [])
                    keep = len(lst) < self.per_kernel
                    if keep:
                        saved = [copy.deepcopy(a) if isinstance(a, np.ndarray) else a for a in args]
                    out = disp(*args)
                    if keep:
                        outs = list(out) if isinstance(out, tuple) else [out]
                        lst.append((saved, [np.array(o, copy=True) for o in outs]))
                    return out

                wrapper.py_func = disp.py_func  # so that nested callers can still find the source
                return wrapper

            w = make()
            self._saved.append((owner, attr, raw))
            setattr(owner, attr, staticmethod(w) if isinstance(raw, staticmethod) else w)
        return self

    def uninstall(self):
        while self._saved:
            owner, attr, raw = self._saved.pop()
            setattr(owner, attr, raw)


def dispatchers():
    out = {}
    for owner, attr, raw, disp in discover_sites():
        out.setdefault(disp.py_func.__qualname__, disp)
    return out
