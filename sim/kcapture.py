"""Capture the actual arguments of the numba prange kernels during a real pipeline run (compiled code)."""
import copy

import numpy as np

SITES = [
    # (module, class or None, attribute)
    ("pandora.refinement.refinement", "AbstractRefinement", "loop_refinement"),
    ("pandora.refinement.refinement", "AbstractRefinement", "loop_approximate_refinement"),
    ("pandora.cost_volume_confidence.ambiguity", "Ambiguity", "compute_ambiguity"),
    ("pandora.cost_volume_confidence.ambiguity", "Ambiguity", "compute_ambiguity_and_sampled_ambiguity"),
    ("pandora.cost_volume_confidence.risk", "Risk", "compute_risk"),
    ("pandora.cost_volume_confidence.risk", "Risk", "compute_risk_and_sampled_risk"),
    ("pandora.cost_volume_confidence.interval_bounds", "IntervalBounds", "compute_interval_bounds"),
    ("pandora.interval_tools", None, "create_connected_graph"),
    ("pandora.interval_tools", None, "graph_regularization"),
]


class Capture:
    def __init__(self, per_kernel=3):
        self.calls = {}  # qualname -> list of (args copy, compiled outputs copy)
        self.per_kernel = per_kernel
        self._saved = []

    def install(self):
        import importlib

        for modname, cls, attr in SITES:
            mod = importlib.import_module(modname)
            owner = getattr(mod, cls) if cls else mod
            raw = owner.__dict__[attr] if cls else getattr(mod, attr)
            disp = raw.__func__ if isinstance(raw, staticmethod) else raw
            qual = disp.py_func.__qualname__

            def make(disp=disp, qual=qual):
                def wrapper(*args):
                    lst = self.calls.setdefault(qual, [])
                    keep = len(lst) < self.per_kernel
                    if keep:
                        saved = [copy.deepcopy(a) if isinstance(a, np.ndarray) else a for a in args]
                    out = disp(*args)
                    if keep:
                        outs = list(out) if isinstance(out, tuple) else [out]
                        lst.append((saved, [np.array(o, copy=True) for o in outs]))
                    return out

                wrapper.py_func = disp.py_func  # so that nested callers can still find the source
                return wrapper

            w = make()
            self._saved.append((owner, attr, raw))
            setattr(owner, attr, staticmethod(w) if cls else w)
        return self

    def uninstall(self):
        while self._saved:
            owner, attr, raw = self._saved.pop()
            setattr(owner, attr, raw)


def dispatchers():
    import importlib

    out = {}
    for modname, cls, attr in SITES:
        mod = importlib.import_module(modname)
        owner = getattr(mod, cls) if cls else mod
        raw = owner.__dict__[attr] if cls else getattr(mod, attr)
        disp = raw.__func__ if isinstance(raw, staticmethod) else raw
        out[disp.py_func.__qualname__] = disp
    return out
