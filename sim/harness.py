"""
Harness: seeds -> scenarios -> fork-per-scenario execution -> violations -> shrink -> fresh-interpreter replay ->
VIOLATION / KNOWN-FINDING lines and the evidence file.  DESIGN.md §3.1, §3.2, §3.5, §10.

A check is an object with
    prop                      property id
    level                     'exploration' | 'fault_enumeration'
    budgets                   {'quick': n, 'thorough': n}
    generate(rnd, index, tier) -> scenario (JSON-able dict)
    execute(scenario)         -> result dict: {'violations': [ {class, sig, ...} ], 'cov': {counter: int},
                                               'shape': hashable-as-string, 'digest': str, 'steps': int,
                                               'faults': {kind: fired}, 'probes': {name: count}}
    simplify(scenario)        -> iterable of simpler candidate scenarios (optional)
    describe()                -> dict of static evidence fields (rule, assumptions, real_vs_stub, ...)
"""
import hashlib
import json
import os
import pickle
import random
import select
import signal
import subprocess
import sys
import time
import traceback

VERIF_DIR = os.path.dirname(os.path.dirname(os.path.abspath(__file__)))
EXIT_OK, EXIT_VIOLATION, EXIT_HARNESS = 0, 1, 3


def scenario_rng(prop, seed, index):
    h = hashlib.sha256(f"{prop}:{seed}:{index}".encode()).digest()
    return random.Random(int.from_bytes(h[:8], "big"))


def jdump(obj):
    return json.dumps(obj, sort_keys=True, default=_json_default)


def _json_default(o):
    import numpy as np

    if isinstance(o, (np.integer,)):
        return int(o)
    if isinstance(o, (np.floating,)):
        return float(o)
    if isinstance(o, np.ndarray):
        return o.tolist()
    if isinstance(o, (set, frozenset)):
        return sorted(o)
    if isinstance(o, tuple):
        return list(o)
    return repr(o)


# ---------------------------------------------------------------------------------------------------------------
# warm-up of numba dispatchers without touching Pandora's Python-level state


def find_dispatchers():
    """All numba CPU dispatchers reachable from pandora.* modules: {(module, qualname): dispatcher}"""
    from numba.core.registry import CPUDispatcher

    out = {}
    for modname in sorted(m for m in sys.modules if m == "pandora" or m.startswith("pandora.")):
        mod = sys.modules[modname]
        if mod is None:
            continue
        for name, obj in sorted(vars(mod).items(), key=lambda kv: kv[0]):
            if isinstance(obj, CPUDispatcher):
                out.setdefault((obj.py_func.__module__, obj.py_func.__qualname__), obj)
            elif isinstance(obj, type) and getattr(obj, "__module__", "").startswith("pandora"):
                for an, av in sorted(vars(obj).items(), key=lambda kv: kv[0]):
                    f = av.__func__ if isinstance(av, (staticmethod, classmethod)) else av
                    if isinstance(f, CPUDispatcher):
                        out.setdefault((f.py_func.__module__, f.py_func.__qualname__), f)
    return out


def _canonical_warm_runs():
    """A few pipelines touching every built-in kernel; executed only in a throw-away child."""
    from sim import world, programs
    import pandora
    from pandora.state_machine import PandoraMachine
    from pandora import check_configuration as cc

    rnd = random.Random(12345)
    specs = []
    for bands, masks, disp, mc, sub in [
        (1, True, "scalar", "sad", 2),
        (1, False, "scalar", "census", 1),
        (1, True, "grid", "zncc", 1),
        (2, True, "scalar", "ssd", 1),
        (1, False, "scalar", "ssd", 4),
    ]:
        w = world.gen_world(rnd, rows=9, cols=12, bands=bands, masks=masks, disp=disp, right_disp=True)
        if w["disp"]["kind"] == "scalar":
            w["disp"]["min"], w["disp"]["max"] = -2, 2
        for refm, filt, fill in [("vfit", "median", "mc-cnn"), ("quadratic", "bilateral", "sgm")]:
            mcp = {"matching_cost_method": mc, "window_size": 3, "subpix": sub}
            if bands > 1:
                mcp["band"] = world.BAND_NAMES[0]
            prog = [["matching_cost", mcp]]
            if bands == 1:
                prog.append(["aggregation", {"aggregation_method": "cbca", "cbca_distance": 2}])
            prog += [
                ["cost_volume_confidence.a", {"confidence_method": "ambiguity"}],
                ["cost_volume_confidence.s", {"confidence_method": "std_intensity"}],
                ["cost_volume_confidence.r", {"confidence_method": "risk"}],
                ["cost_volume_confidence.i", {"confidence_method": "interval_bounds"}],
                ["disparity", {"disparity_method": "wta", "invalid_disparity": "NaN"}],
                ["refinement", {"refinement_method": refm}],
                ["filter", {"filter_method": filt}],
                ["validation", {"validation_method": "cross_checking_accurate", "interpolated_disparity": fill}],
                [
                    "filter.i",
                    {
                        "filter_method": "median_for_intervals",
                        "interval_indicator": "i",
                        "regularization": True,
                        "ambiguity_indicator": "a",
                    },
                ],
            ]
            specs.append((w, prog))
    for w, prog in specs:
        try:
            ds = world.build(w)
            m = PandoraMachine()
            cfg = cc.check_pipeline_section(programs.to_cfg(prog), ds["meta_left"], ds["meta_right"], m)
            pandora.run(m, ds["left"], ds["right"], cfg)
        except Exception:  # warm-up is best effort
            traceback.print_exc()
    # multiscale path
    try:
        w = world.gen_world(rnd, rows=24, cols=28, bands=1, masks=True, disp="scalar")
        w["disp"]["min"], w["disp"]["max"] = -4, 4
        ds = world.build(w)
        m = PandoraMachine()
        prog = [
            ["matching_cost", {"matching_cost_method": "sad", "window_size": 3}],
            ["disparity", {"disparity_method": "wta"}],
            ["multiscale", {"multiscale_method": "fixed_zoom_pyramid"}],
        ]
        cfg = cc.check_pipeline_section(programs.to_cfg(prog), ds["meta_left"], ds["meta_right"], m)
        pandora.run(m, ds["left"], ds["right"], cfg)
    except Exception:
        traceback.print_exc()


def warm(extra=None):
    """
    Harvest dispatcher signatures in a throw-away child that runs canonical pipelines, then compile (= load from the
    on-disk cache) the same signatures in this process.  This process executes no Pandora code.
    """
    r, w = os.pipe()
    pid = os.fork()
    if pid == 0:
        try:
            os.close(r)
            _canonical_warm_runs()
            if extra:
                extra()
            sigs = {}
            from numba.core import types as _nbt

            for key, disp in find_dispatchers().items():
                if disp.signatures:
                    lst = []
                    for sg in disp.signatures:
                        if any(isinstance(t, _nbt.Dispatcher) for t in sg):
                            lst.append(_describe_sig(sg))
                        else:
                            lst.append(sg)
                    sigs[key] = lst
            data = pickle.dumps(sigs)
            with os.fdopen(w, "wb") as f:
                f.write(data)
        except BaseException:
            traceback.print_exc()
        finally:
            os._exit(0)
    os.close(w)
    with os.fdopen(r, "rb") as f:
        data = f.read()
    os.waitpid(pid, 0)
    if not data:
        return 0
    sigs = pickle.loads(data)
    disps = find_dispatchers()
    n = 0
    for key, lst in sorted(sigs.items()):
        d = disps.get(key)
        if d is None:
            continue
        for sig in lst:
            try:
                if isinstance(sig, list):
                    # kernel taking a jitted function: its dispatcher type does not survive pickling, so the
                    # specialisation is created by one direct call on dummy arrays (no Pandora Python state involved)
                    d(*_dummy_args(sig, disps))
                else:
                    d.compile(sig)
                n += 1
            except RuntimeError:
                pass  # explicitly typed kernels are compiled at import ("compilation disabled")
            except Exception:
                traceback.print_exc()
    return n


def warm_refinement_variants(approx=False):
    """Direct dummy calls of loop_refinement for the argument-type combinations pipelines produce (parent side)."""
    import numpy as np
    from pandora.refinement.refinement import AbstractRefinement
    from pandora.refinement.vfit import Vfit
    from pandora.refinement.quadratic import Quadratic

    n = 0
    for meth in (Vfit.refinement_method, Quadratic.refinement_method):
        for layout in ("C", "F"):
            for dm in (0, 0.0):
                for mdt in (np.int64,):
                    cv = np.zeros((3, 3, 3), dtype=np.float32)
                    if layout == "F":
                        cv = np.asfortranarray(cv)
                    before = len(AbstractRefinement.loop_refinement.signatures)
                    AbstractRefinement.loop_refinement(
                        cv, np.zeros((3, 3), np.float32), np.zeros((3, 3), mdt), dm, dm + 1, 1, "min", meth
                    )
                    n += len(AbstractRefinement.loop_refinement.signatures) - before
                    if approx:
                        # every pixel flagged invalid: the kernel touches no cost (safe on dummy data)
                        AbstractRefinement.loop_approximate_refinement(
                            cv, np.zeros((3, 3), np.float32), np.ones((3, 3), mdt), dm, dm + 1, 1, "min", meth
                        )
    return n


def _describe_sig(sig):
    """Picklable description of a signature that contains a dispatcher type."""
    from numba.core import types

    out = []
    for t in sig:
        if isinstance(t, types.Dispatcher):
            f = t.dispatcher.py_func
            out.append(("dispatcher", f.__module__, f.__qualname__))
        elif isinstance(t, types.Array):
            out.append(("array", str(t.dtype), t.ndim, t.layout, bool(t.mutable)))
        elif isinstance(t, types.Integer):
            out.append(("int", str(t)))
        elif isinstance(t, types.Float):
            out.append(("float", str(t)))
        elif isinstance(t, types.UnicodeType):
            out.append(("str",))
        elif isinstance(t, types.Boolean):
            out.append(("bool",))
        else:
            out.append(("other", str(t)))
    return out


def _dummy_args(desc, disps):
    import numpy as np

    args = []
    for d in desc:
        if d[0] == "dispatcher":
            args.append(disps[(d[1], d[2])])
        elif d[0] == "array":
            a = np.zeros((3,) * d[2], dtype=np.dtype(d[1]))
            if d[3] == "F":
                a = np.asfortranarray(a)
            elif d[3] == "A":
                a = np.zeros((6,) * d[2], dtype=np.dtype(d[1]))[(slice(None, None, 2),) * d[2]]
            if not d[4]:
                a.flags.writeable = False
            args.append(a)
        elif d[0] == "int":
            args.append(1 if d[1] in ("int64", "intp") else np.dtype(d[1]).type(1))
        elif d[0] == "float":
            args.append(1.0 if d[1] == "float64" else np.dtype(d[1]).type(1))
        elif d[0] == "str":
            args.append("min")
        elif d[0] == "bool":
            args.append(False)
        else:
            raise ValueError(f"cannot build dummy for {d}")
    return args


# ---------------------------------------------------------------------------------------------------------------
# fork-per-scenario execution


class ChildFailure(Exception):
    pass


def _child_main(check, scenario, wfd):
    try:
        try:
            before = {k: len(d.signatures) for k, d in find_dispatchers().items()}
            res = check.execute(scenario)
            cold = {}
            for k, d in find_dispatchers().items():
                if len(d.signatures) > before.get(k, 0):
                    cold["cold_compile:" + k[1]] = len(d.signatures) - before.get(k, 0)
            if cold and isinstance(res, dict):
                res.setdefault("cov", {}).update(cold)
                res["cold_sigs"] = [str(sg) for k, d in find_dispatchers().items() for sg in d.signatures[before.get(k, 0):]]
        except BaseException as e:  # harness-level failure inside the child
            res = {"harness_error": f"{type(e).__name__}: {e}", "trace": traceback.format_exc()[-3000:]}
        data = jdump(res).encode()
        with os.fdopen(wfd, "wb") as f:
            f.write(data)
    finally:
        os._exit(0)


def run_forked(check, scenarios, workers=16, timeout=300, on_result=None):
    """
    Execute scenarios, each in its own fork of this (booted, warmed, otherwise pristine) process, at most `workers`
    at a time.  Results are delivered to on_result(index, scenario, result) in completion order and returned in
    submission order.
    """
    it = iter(enumerate(scenarios))
    live = {}  # rfd -> (pid, idx, scenario, start, chunks)
    results = {}
    exhausted = False
    while True:
        while not exhausted and len(live) < workers:
            try:
                idx, sc = next(it)
            except StopIteration:
                exhausted = True
                break
            r, w = os.pipe()
            sys.stdout.flush()
            sys.stderr.flush()
            pid = os.fork()
            if pid == 0:
                os.close(r)
                for fd in list(live):
                    try:
                        os.close(fd)
                    except OSError:
                        pass
                _child_main(check, sc, w)
            os.close(w)
            live[r] = (pid, idx, sc, time.time(), [])
        if not live:
            break
        ready, _, _ = select.select(list(live), [], [], 1.0)
        now = time.time()
        for fd in ready:
            pid, idx, sc, start, chunks = live[fd]
            data = os.read(fd, 1 << 20)
            if data:
                chunks.append(data)
                continue
            os.close(fd)
            del live[fd]
            _, status = os.waitpid(pid, 0)
            raw = b"".join(chunks)
            if raw:
                try:
                    res = json.loads(raw.decode())
                except Exception as e:
                    res = {"harness_error": f"unparsable child output: {e}"}
            else:
                res = {"harness_error": f"child died without output (status {status})"}
            results[idx] = res
            if on_result:
                on_result(idx, sc, res)
        for fd, (pid, idx, sc, start, chunks) in list(live.items()):
            if now - start > timeout:
                try:
                    os.kill(pid, signal.SIGKILL)
                except OSError:
                    pass
                os.close(fd)
                del live[fd]
                try:
                    os.waitpid(pid, 0)
                except OSError:
                    pass
                res = {"harness_error": f"scenario timeout after {timeout}s"}
                results[idx] = res
                if on_result:
                    on_result(idx, sc, res)
    return [results[i] for i in sorted(results)]


# ---------------------------------------------------------------------------------------------------------------
# known findings


def load_known_findings():
    p = os.path.join(VERIF_DIR, "known_findings.json")
    if not os.path.exists(p):
        return []
    with open(p) as f:
        return json.load(f).get("findings", [])


def match_finding(violation, prop, findings):
    """A finding of status 'known' matches iff class is equal and every key of its 'match' equals the violation's sig."""
    sig = violation.get("sig", {})
    for f in findings:
        if f.get("status") != "known" or f.get("property") != prop:
            continue
        if f.get("class") != violation.get("class"):
            continue
        if all(sig.get(k) == v for k, v in f.get("match", {}).items()):
            return f
    return None


# ---------------------------------------------------------------------------------------------------------------
# shrinking + replay


def violation_key(v):
    return v.get("class"), jdump(v.get("sig", {}))


def shrink(check, scenario, target_key, workers=16, budget=300, timeout=300):
    """Greedy delta debugging over check.simplify candidates; keeps a candidate iff the same violation key persists."""
    if not hasattr(check, "simplify"):
        return scenario, 0
    used = 0
    current = scenario
    improved = True
    while improved and used < budget:
        improved = False
        cands = []
        seen = {jdump(current)}
        for c in check.simplify(current):
            k = jdump(c)
            if k in seen:
                continue
            seen.add(k)
            cands.append(c)
            if len(cands) >= 64:
                break
        if not cands:
            break
        # evaluate in batches; accept the first (in candidate order) that still fails the same way
        pos = 0
        while pos < len(cands) and used < budget:
            batch = cands[pos : pos + workers]
            pos += len(batch)
            used += len(batch)
            res = run_forked(check, batch, workers=workers, timeout=timeout)
            hit = None
            for c, r in zip(batch, res):
                if any(violation_key(v) == target_key for v in r.get("violations", [])):
                    hit = c
                    break
            if hit is not None:
                current = hit
                improved = True
                break
    return current, used


def replay_fresh(check_file, replay_path, timeout=900):
    """Re-execute a replay file in a freshly spawned interpreter; returns the result dict or a harness_error."""
    env = dict(os.environ)
    try:
        out = subprocess.run(
            [sys.executable, check_file, "--replay", replay_path, "--json"],
            capture_output=True,
            timeout=timeout,
            env=env,
            cwd=VERIF_DIR,
        )
    except subprocess.TimeoutExpired:
        return {"harness_error": "replay timeout"}
    for line in reversed(out.stdout.decode(errors="replace").splitlines()):
        if line.startswith("RESULT "):
            try:
                return json.loads(line[len("RESULT ") :])
            except Exception:
                break
    return {"harness_error": "replay produced no RESULT line", "stderr": out.stderr.decode(errors="replace")[-2000:]}


# ---------------------------------------------------------------------------------------------------------------
# main driver


def parse_args(argv):
    a = {"tier": os.environ.get("VERIF_TIER", "quick"), "replay": None, "json": False, "n": None, "workers": None}
    i = 0
    while i < len(argv):
        x = argv[i]
        if x in ("quick", "thorough"):
            a["tier"] = x
        elif x == "--replay":
            i += 1
            a["replay"] = argv[i]
        elif x == "--json":
            a["json"] = True
        elif x == "--n":
            i += 1
            a["n"] = int(argv[i])
        elif x == "--workers":
            i += 1
            a["workers"] = int(argv[i])
        elif x == "--no-evidence":
            a["no_evidence"] = True
        else:
            raise SystemExit(f"unknown argument {x}")
        i += 1
    return a


def write_evidence(check, tier, seed, stats, wall, n_viol):
    desc = check.describe() if hasattr(check, "describe") else {}
    cov = {
        "evaluations": stats["evaluations"],
        "distinct_nontrivial": len(stats["shapes"]),
        "rule": desc.get("rule", ""),
        "samples": stats["samples"][:5],
        "exhaustive": False,
        "runs_per_hour": int(stats["evaluations"] / max(wall, 1e-6) * 3600),
        "seeds": {"VERIF_SEED": seed, "scenario_indices": [0, stats["generated"] - 1]},
        "simulated_time": "n/a (the system reads no clock; logical steps are reported instead)",
        "logical_steps": stats["steps"],
        "faults_injected": dict(sorted(stats["faults"].items())),
        "rare_condition_probes": dict(sorted(stats["probes"].items())),
        "counters": dict(sorted(stats["cov"].items())),
        "distinct_event_log_digests": len(stats["digests"]),
        "real_vs_stub": desc.get("real_vs_stub", REAL_VS_STUB),
        "known_findings_observed": dict(sorted(stats["known"].items())),
        "harness_errors": stats["harness_errors"],
        "tree_hash": stats.get("tree_hash"),
    }
    for k, v in desc.get("extra_coverage", {}).items():
        cov[k] = v
    for k, v in stats.get("extra", {}).items():
        cov[k] = v
    for k, v in stats.get("sets", {}).items():
        cov[k] = len(v)
    ev = {
        "property_id": check.prop,
        "tier": tier,
        "seed": seed,
        "level": check.level,
        "coverage": cov,
        "assumptions": desc.get("assumptions", []),
        "wall_s": round(wall, 2),
        "violations": n_viol,
    }
    os.makedirs(os.path.join(VERIF_DIR, "evidence"), exist_ok=True)
    path = os.path.join(VERIF_DIR, "evidence", f"{check.prop}.json")
    tmp = path + ".tmp"
    with open(tmp, "w") as f:
        f.write(json.dumps(ev, indent=1, sort_keys=True, default=_json_default))
    os.replace(tmp, path)


REAL_VS_STUB = {
    "real": [
        "PandoraMachine + transitions",
        "check_configuration",
        "all built-in step classes",
        "img_tools/common",
        "xarray/numpy/rasterio",
        "numba-compiled kernels (default parallel build, workqueue layer, 1 worker thread)",
    ],
    "stub": [
        "optimization method verif_identity",
        "semantic_segmentation method verif_identity",
        "sys.modules['pandora2d'] dummy entry (only where step>1 is exercised)",
    ],
}


def main(check, check_file):
    """Entry point of every check: never lets a harness exception look like a verdict (exit 1)."""
    try:
        return _main(check, check_file)
    except SystemExit:
        raise
    except BaseException as e:  # noqa
        traceback.print_exc()
        print(f"HARNESS-ERROR property={check.prop} {type(e).__name__}: {e}")
        return EXIT_HARNESS


def _main(check, check_file):
    from sim import boot

    args = parse_args(sys.argv[1:])
    boot.ensure_hashseed()
    seed = int(os.environ.get("VERIF_SEED", "0"))
    tier = args["tier"]
    workers = args["workers"] or int(os.environ.get("VERIF_WORKERS", "16"))
    t0 = time.time()
    boot.boot()
    if hasattr(check, "setup"):
        check.setup()

    # ---- replay mode: execute in-process (fresh interpreter), print RESULT
    if args["replay"]:
        with open(args["replay"]) as f:
            rp = json.load(f)
        sc = rp["scenario"]
        res = check.execute(sc)
        if args["json"]:
            print("RESULT " + jdump(res))
            return EXIT_OK
        vs = res.get("violations", [])
        findings = load_known_findings()
        new = [v for v in vs if not match_finding(v, check.prop, findings)]
        for v in vs:
            print(("VIOLATION-DETAIL " if v in new else "KNOWN-DETAIL ") + jdump(v))
        if new:
            print(f"VIOLATION property={check.prop} replay={args['replay']}")
            return EXIT_VIOLATION
        print(f"replay: no new violation ({len(vs)} known)")
        return EXIT_OK

    print(f"[{check.prop}] seed={seed} tier={tier} workers={workers} tree={boot.info().get('tree_hash')}", flush=True)
    nwarm = 0 if getattr(check, "no_warm", False) else warm(getattr(check, "warm_extra", None))
    if getattr(check, "warm_refinement", False):
        try:
            nwarm += warm_refinement_variants(approx=getattr(check, "warm_approx_refinement", False))
        except Exception as e:  # warming only saves time: a renamed kernel must not stop the check
            print(f"[{check.prop}] refinement warm-up skipped: {type(e).__name__}: {e}", flush=True)
    print(f"[{check.prop}] boot+warm {time.time()-t0:.1f}s ({nwarm} signatures)", flush=True)

    n = args["n"] or check.budgets[tier]
    findings = load_known_findings()
    stats = {
        "evaluations": 0,
        "generated": 0,
        "shapes": set(),
        "digests": set(),
        "samples": [],
        "steps": 0,
        "faults": {},
        "probes": {},
        "cov": {},
        "known": {},
        "harness_errors": 0,
        "tree_hash": boot.info().get("tree_hash"),
        "extra": {},
    }
    new_violations = []  # (scenario, violation)
    harness_errs = []

    def gen():
        for i in range(n):
            rnd = scenario_rng(check.prop, seed, i)
            sc = check.generate(rnd, i, tier)
            sc["property"] = check.prop
            sc["seed"] = seed
            sc["index"] = i
            stats["generated"] += 1
            if len(stats["samples"]) < 5 and i % max(1, n // 5) == 0:
                stats["samples"].append(sc)
            yield sc

    def on_result(idx, sc, res):
        if "harness_error" in res:
            stats["harness_errors"] += 1
            if len(harness_errs) < 5:
                harness_errs.append((sc, res))
            return
        stats["evaluations"] += res.get("evaluations", 1)
        if res.get("evaluations", 1) > 0:  # only cases that were actually evaluated count as distinct cases
            for s in res.get("shapes", [res.get("shape")] if res.get("shape") is not None else []):
                stats["shapes"].add(s if isinstance(s, str) else jdump(s))
        if res.get("digest"):
            stats["digests"].add(res["digest"])
        stats["steps"] += res.get("steps", 0)
        for k, v in res.get("faults", {}).items():
            stats["faults"][k] = stats["faults"].get(k, 0) + v
        for k, v in res.get("probes", {}).items():
            stats["probes"][k] = stats["probes"].get(k, 0) + v
        for k, v in res.get("cov", {}).items():
            stats["cov"][k] = stats["cov"].get(k, 0) + v
        for name, items in res.get("sets", {}).items():
            stats.setdefault("sets", {}).setdefault(name, set()).update(items)
        for v in res.get("violations", []):
            f = match_finding(v, check.prop, findings)
            if f:
                stats["known"][f["id"]] = stats["known"].get(f["id"], 0) + 1
            else:
                if len(new_violations) < 40:
                    new_violations.append((sc, v))

    run_forked(check, gen(), workers=workers, timeout=getattr(check, "scenario_timeout", 300), on_result=on_result)
    finish_error = None
    if hasattr(check, "finish"):
        extra = check.finish(stats) or {}
        finish_error = extra.pop("__harness_error__", None)
        stats["extra"].update(extra)

    exit_code = EXIT_OK
    n_viol = 0
    printed = []
    if harness_errs:
        sc, res = harness_errs[0]
        print(f"HARNESS-ERROR property={check.prop} {res.get('harness_error')}")
        if res.get("trace"):
            print(res["trace"])
        print("scenario: " + jdump(sc)[:2000])
        exit_code = EXIT_HARNESS
    if finish_error:
        print(f"HARNESS-ERROR property={check.prop} {finish_error}")
        exit_code = EXIT_HARNESS
    # distinct new violation keys, shrink + confirm each (bounded)
    by_key = {}
    for sc, v in new_violations:
        by_key.setdefault(violation_key(v), (sc, v))
    for key, (sc, v) in list(by_key.items())[:3]:
        small, used = shrink(check, sc, key, workers=workers)
        os.makedirs(os.path.join(VERIF_DIR, "replays"), exist_ok=True)
        path = os.path.join(VERIF_DIR, "replays", f"{check.prop}-{seed}-{sc.get('index', 0)}.json")
        with open(path, "w") as f:
            f.write(json.dumps({"property": check.prop, "violation": v, "scenario": small, "shrink_runs": used,
                                "original_scenario": sc}, indent=1, sort_keys=True, default=_json_default))
        res = replay_fresh(check_file, path)
        if any(violation_key(x) == key for x in res.get("violations", [])):
            print("VIOLATION-DETAIL " + jdump(v)[:1500])
            print(f"VIOLATION property={check.prop} replay={path}")
            n_viol += 1
            exit_code = EXIT_VIOLATION
        else:
            print(f"HARNESS-ERROR property={check.prop} violation {key[0]} did not reproduce in a fresh interpreter: "
                  + jdump(res)[:1500])
            if exit_code == EXIT_OK:
                exit_code = EXIT_HARNESS
    for f in findings:
        if f.get("property") == check.prop and f.get("status") == "known":
            print(f"KNOWN-FINDING: property={check.prop} {f['id']}: {f['what']} "
                  f"(observed {stats['known'].get(f['id'], 0)}x in this run)")
    wall = time.time() - t0
    if stats["evaluations"] == 0 and exit_code == EXIT_OK:
        print(f"HARNESS-ERROR property={check.prop} nothing was evaluated")
        exit_code = EXIT_HARNESS
    if not args.get("no_evidence"):
        write_evidence(check, tier, seed, stats, wall, n_viol)
    skipped = {k: v for k, v in stats["cov"].items() if k.startswith(("skipped", "non_sequencing:", "cold_compile:"))}
    if skipped:
        print(f"[{check.prop}] skipped/other: " + jdump(skipped)[:1500])
    print(
        f"[{check.prop}] evaluations={stats['evaluations']} distinct={len(stats['shapes'])} "
        f"harness_errors={stats['harness_errors']} new_violations={n_viol} known={sum(stats['known'].values())} "
        f"wall={wall:.1f}s exit={exit_code}",
        flush=True,
    )
    return exit_code
