"""
Stub plugins for the two step kinds that have no built-in method in this sandbox (optimization, semantic_segmentation).
They go through the real Abstract* __new__ dispatch, the real registries and (optimization) the real UniformMargins(40)
descriptor.  DESIGN.md §4.3.
"""
import sys
import types

OPT_METHOD = "verif_identity"
SEG_METHOD = "verif_identity"

CALLS = []  # (kind, side-agnostic marker) appended by the stubs; read by probes


def _img_digest(img):
    import hashlib

    import numpy as np

    h = hashlib.sha1(np.ascontiguousarray(img["im"].data).tobytes())
    if "msk" in img:
        h.update(np.ascontiguousarray(img["msk"].data).tobytes())
    return h.hexdigest()[:12]


def register():
    from pandora import optimization, semantic_segmentation

    if OPT_METHOD in optimization.AbstractOptimization.optimization_methods_avail:
        return

    @optimization.AbstractOptimization.register_subclass(OPT_METHOD)
    class VerifIdentityOptimization(optimization.AbstractOptimization):
        """optimize_cv returns the volume unchanged"""

        def __init__(self, _img, **cfg):
            if set(cfg) - {"optimization_method", "verif_param"}:
                raise KeyError("unknown optimization parameter")
            if not isinstance(cfg.get("verif_param", 1), int) or isinstance(cfg.get("verif_param", 1), bool):
                raise TypeError("verif_param must be int")
            self.cfg = {"optimization_method": cfg["optimization_method"], "verif_param": cfg.get("verif_param", 1)}

        def desc(self):
            pass

        def optimize_cv(self, cv, img_left, img_right):
            # the volume is returned unchanged; which images the step was given is recorded in the volume's attrs
            # (they travel to the disparity dataset), so that a pass called with the wrong images is observable
            cv.attrs["verif_optimization_saw"] = list(cv.attrs.get("verif_optimization_saw", [])) + [
                [_img_digest(img_left), _img_digest(img_right)]
            ]
            return cv

    @semantic_segmentation.AbstractSemanticSegmentation.register_subclass(SEG_METHOD)
    class VerifIdentitySegmentation(semantic_segmentation.AbstractSemanticSegmentation):
        """compute_semantic_segmentation returns the left image unchanged"""

        def __init__(self, _img, **cfg):
            if set(cfg) - {"segmentation_method", "RGB_bands", "verif_param"}:
                raise KeyError("unknown segmentation parameter")
            self.cfg = {
                "segmentation_method": cfg["segmentation_method"],
                "RGB_bands": cfg.get("RGB_bands"),
                "verif_param": cfg.get("verif_param", 1),
            }

        def desc(self):
            pass

        def compute_semantic_segmentation(self, cv, img_left, img_right):
            cv.attrs["verif_segmentation_saw"] = list(cv.attrs.get("verif_segmentation_saw", [])) + [
                [_img_digest(img_left), _img_digest(img_right)]
            ]
            return img_left


LOPSIDED = {"verif_lopsided_a": (6, 0, 0, 0), "verif_lopsided_b": (0, 8, 1, 0), "verif_lopsided_c": (2, 2, 9, 0)}


def register_lopsided_filters():
    """identity filters whose margins differ from side to side (left, up, right, down): 'per side' must mean per side"""
    from pandora import filter as pfilter
    from pandora.margins import Margins

    for name, sides in LOPSIDED.items():
        if name in pfilter.AbstractFilter.filter_methods_avail:
            continue

        def make(name=name, sides=sides):
            @pfilter.AbstractFilter.register_subclass(name)
            class VerifLopsidedFilter(pfilter.AbstractFilter):
                def __init__(self, *args, cfg=None, step=1, **kwargs):
                    if set(cfg) - {"filter_method"}:
                        raise KeyError("unknown parameter")
                    self.cfg = {"filter_method": cfg["filter_method"]}

                @property
                def margins(self):
                    return Margins(*sides)

                def desc(self):
                    pass

                def filter_disparity(self, disp, img_left=None, img_right=None, cv=None):
                    return None

            return VerifLopsidedFilter

        make()


def pandora2d_entry(on=True):
    """The repo's own tests unlock matching-cost step > 1 with a dummy sys.modules['pandora2d'] entry."""
    if on:
        sys.modules.setdefault("pandora2d", types.ModuleType("pandora2d"))
    else:
        sys.modules.pop("pandora2d", None)
