"""Small helpers shared by the checks: machines with probes, check / run operations with verdict capture."""
import copy

from sim import probes


def new_machine(monitors=(), snapshots=True, instrumented=True):
    from pandora.state_machine import PandoraMachine

    m = PandoraMachine()
    rec = None
    if instrumented:
        rec = probes.Recorder(snapshots=snapshots, monitors=monitors)
        probes.instrument(m, rec)
    return m, rec


def do_check(machine, user_cfg, ds):
    """check_pipeline_section on the given machine. Returns (True, checked_cfg) or (False, exception)."""
    from pandora import check_configuration as cc

    try:
        out = cc.check_pipeline_section(copy.deepcopy(user_cfg), ds["meta_left"], ds["meta_right"], machine)
        return True, out
    except Exception as e:  # any exception type counts as refusal
        return False, e


def do_run(machine, ds, cfg):
    import pandora

    try:
        left, right = pandora.run(machine, ds["left"], ds["right"], cfg)
        return True, (left, right)
    except Exception as e:
        return False, e


def exc_sig(e):
    import traceback

    tb = traceback.extract_tb(e.__traceback__)
    where = ""
    for fr in reversed(tb):
        if "/pandora/" in fr.filename:
            where = fr.filename.split("/pandora/")[-1] + ":" + fr.name
            break
    return {"exception": type(e).__name__, "where": where}


def canon_cfg(cfg):
    """JSON-able canonical rendering of a (checked) configuration, key order preserved, NaN rendered as 'nan'."""

    def r(v):
        if isinstance(v, dict):
            return [[k, r(x)] for k, x in v.items()]
        if isinstance(v, (list, tuple)):
            return [r(x) for x in v]
        if isinstance(v, float) and v != v:
            return "nan"
        if isinstance(v, float) and v in (float("inf"), float("-inf")):
            return repr(v)
        try:
            import numpy as np

            if isinstance(v, np.generic):
                return r(v.item())
        except Exception:
            pass
        return v

    return r(cfg)
