"""
Pipeline scenarios: (world, legal program) executed on a fresh machine with step monitors.  Shared by C04, C06, C08, C10,
C12.  A pipeline is a *program*: an ordered list of operations applied in place to the machine's shared datasets.
"""
import copy
import math
import random

import numpy as np

from sim import programs, world, runner, probes, knobs

INVALID_BITS = 0b01111000011


class Ctx:
    """What monitors may look at besides snapshots."""

    def __init__(self, sc, ds, checked_cfg):
        self.sc = sc
        self.world = sc["world"]
        self.ds = ds
        self.params = {n: p for n, p in sc["program"]}
        self.cfg = checked_cfg
        self.names = [n for n, _ in sc["program"]]
        self.cov = {}
        self.probes = {}
        inv = None
        for n in self.names:
            if programs.kind_of(n) == "disparity":
                inv = checked_cfg["pipeline"][n]["invalid_disparity"]
        self.invalid_disparity = inv
        self.first_validation_seen = {"left": False, "right": False}

    def probe(self, name, n=1):
        if n:
            self.probes[name] = self.probes.get(name, 0) + int(n)

    def bump(self, name, n=1):
        self.cov[name] = self.cov.get(name, 0) + int(n)


def is_invalid_value(arr, inv):
    if isinstance(inv, float) and math.isnan(inv):
        return np.isnan(arr)
    return arr == np.float32(inv)


# ---------------------------------------------------------------------------------------------------------------
# generation


def gen_program(rnd, w, profile):
    """
    profile keys: cv_kinds, dm_kinds (lists with repetition = weights), max_cv, max_dm, mc (kwargs of p_matching_cost),
    filters, conf_methods, fill_p, need_validation, intervals (bool: allow median_for_intervals with its prerequisites)
    """
    kinds = ["matching_cost"]
    cvk = list(profile.get("cv_kinds", []))
    if w["bands"] > 1:
        cvk = [k for k in cvk if k != "aggregation"]
    for _ in range(rnd.randint(profile.get("min_cv", 0), profile.get("max_cv", 2))):
        if cvk:
            kinds.append(rnd.choice(cvk))
    kinds.append("disparity")
    dmk = list(profile.get("dm_kinds", []))
    dm = []
    for _ in range(rnd.randint(profile.get("min_dm", 0), profile.get("max_dm", 4))):
        if dmk:
            dm.append(rnd.choice(dmk))
    if profile.get("need_validation") and "validation" not in dm:
        dm.insert(rnd.randint(0, len(dm)), "validation")
    for must in profile.get("must_dm", []):
        if must not in dm:
            dm.insert(rnd.randint(0, len(dm)), must)
    kinds += dm
    names = programs.name_steps(rnd, kinds)
    mc_kwargs = dict(profile.get("mc", {}))
    prog = []
    conf_suffix = {}
    for k, n in zip(kinds, names):
        if k == "matching_cost":
            p = programs.p_matching_cost(rnd, w, **mc_kwargs)
            if w["bands"] > 1 and p["matching_cost_method"] in ("sad", "ssd"):
                p["subpix"] = 1  # multiband + subpix>1 raises in sad/ssd (C02 matter, out of scope)
        elif k == "cost_volume_confidence":
            p = programs.p_confidence(rnd, w, methods=profile.get("conf_methods"))
            conf_suffix.setdefault(p["confidence_method"], []).append(n.split(".")[1] if n.count(".") == 1 else "")
        elif k == "filter":
            p = programs.p_filter(rnd, w, methods=profile.get("filters", ("median", "bilateral")))
        elif k == "validation":
            p = programs.p_validation(rnd, w, fill=rnd.random() < profile.get("fill_p", 0.4))
        elif k == "disparity":
            p = programs.p_disparity(rnd, w, invalid=profile.get("invalid"))
        else:
            p = programs.PARAMS[k](rnd, w)
        prog.append([n, p])
    # median_for_intervals needs an interval_bounds band (and an ambiguity band for regularisation)
    if profile.get("intervals") and rnd.random() < profile.get("intervals_p", 0.5):
        ib_name = "cost_volume_confidence.ib"
        amb_name = "cost_volume_confidence.am"
        reg = rnd.random() < 0.6
        ins = []
        if reg:
            ins.append([amb_name, {"confidence_method": "ambiguity", "normalization": rnd.random() < 0.7}])
        ib = {"confidence_method": "interval_bounds"}
        if rnd.random() < 0.5:
            ib["possibility_threshold"] = rnd.choice([0.5, 0.7, 0.9])
        if reg and rnd.random() < 0.5:
            ib.update({"regularization": True, "ambiguity_indicator": "am",
                       "ambiguity_threshold": rnd.choice([0.0, 0.3, 0.6, 1.0]),
                       "ambiguity_kernel_size": rnd.choice([1, 3, 5]), "vertical_depth": rnd.choice([0, 1, 2]),
                       "quantile_regularization": rnd.choice([1.0, 1.0, 0.9, 0.5])})
        ins.append([ib_name, ib])
        di = next(i for i, (n, _) in enumerate(prog) if programs.kind_of(n) == "disparity")
        existing = {n for n, _ in prog}
        ins = [x for x in ins if x[0] not in existing]
        prog[di:di] = ins
        f = {"filter_method": "median_for_intervals", "interval_indicator": "ib"}
        if rnd.random() < 0.7:
            f["filter_size"] = rnd.choice([1, 3, 3, 5])
        if reg:
            f.update({"regularization": True, "ambiguity_indicator": "am",
                      "ambiguity_threshold": rnd.choice([0.0, 0.3, 0.6, 1.0]),
                      "ambiguity_kernel_size": rnd.choice([1, 3, 5]), "vertical_depth": rnd.choice([0, 1, 2]),
                      "quantile_regularization": rnd.choice([1.0, 1.0, 0.9, 0.5])})
        di = next(i for i, (n, _) in enumerate(prog) if programs.kind_of(n) == "disparity")
        pos = rnd.randint(di + 1, len(prog))
        fname = "filter.mfi" if "filter.mfi" not in existing else "filter.mfi2"
        prog.insert(pos, [fname, f])
    return prog


def gen_world_for(rnd, profile):
    large = rnd.random() < profile.get("large_p", 0.0)
    w = world.gen_world(
        rnd,
        bands=1 if rnd.random() < profile.get("mono_p", 0.85) else None,
        masks=rnd.random() < profile.get("mask_p", 0.5),
        disp=None if not profile.get("scalar_only") else "scalar",
        right_disp=True,
        georef=False,
        large=large,
    )
    if "rows" in profile:
        w["rows"] = rnd.randint(*profile["rows"])
    if "cols" in profile:
        w["cols"] = rnd.randint(*profile["cols"])
    # interval shapes: negative / positive / containing 0 / reaching past the image edge, but |d| < cols
    if w["disp"]["kind"] == "scalar":
        shape = rnd.choice(["neg", "pos", "zero", "zero", "wide", "point"])
        maxd = min(6, w["cols"] - 2)
        if shape == "neg":
            hi = -rnd.randint(1, 3)
            lo = hi - rnd.randint(0, 3)
        elif shape == "pos":
            lo = rnd.randint(1, 3)
            hi = lo + rnd.randint(0, 3)
        elif shape == "zero":
            lo, hi = -rnd.randint(0, 3), rnd.randint(0, 3)
        elif shape == "wide":
            lo, hi = -rnd.randint(2, maxd), rnd.randint(2, maxd)
        else:
            lo = hi = rnd.randint(-2, 2)
        lo, hi = max(lo, -(w["cols"] - 1)), min(hi, w["cols"] - 1)
        w["disp"]["min"], w["disp"]["max"] = lo, hi
    # row / col coordinates that do not start at 0, as in a dataset read through a ROI (decided from the world itself,
    # so that the random stream - and with it every scenario generated before this dimension existed - is unchanged)
    import hashlib
    import json
    import os

    h = hashlib.sha256(json.dumps(w, sort_keys=True, default=str).encode()).digest()
    if h[0] < 256 * float(os.environ.get("VERIF_COORD_OFF_P", profile.get("coord_off_p", 0.15))):
        w["coord_off"] = [(0, 3, 17, 100)[h[1] % 4], (1, 2, 5, 40)[h[2] % 4]]
    if h[4] < 256 * float(os.environ.get("VERIF_LEVEL_P", profile.get("level_p", 0.08))):
        w["level"] = (4000, 60000)[h[5] % 2]
    if h[6] < 256 * float(os.environ.get("VERIF_WIDE_P", profile.get("wide_p", 0.0))):
        # a wide, low image searched over 256 or more disparity samples, most of the right image masked: counters of
        # candidates per pixel go past one byte
        g = random.Random(int.from_bytes(h[8:16], "big"))
        w["rows"], w["cols"] = g.randint(3, 6), g.randint(262, 300)
        half = g.randint(128, 136)
        w["disp"], w["disp_right"] = {"kind": "scalar", "min": -half, "max": half - g.randint(0, 2)}, None
        w["mask_right"] = {"seed": g.getrandbits(32), "p_invalid": g.choice([0.9, 0.97, 1.0]), "p_nodata": 0.0}
        w.pop("coord_off", None)
    return w


def gen_scenario(rnd, profile):
    w = gen_world_for(rnd, profile)
    prog = gen_program(rnd, w, profile)
    sc = {"harness": "pipeline", "world": w, "program": prog}
    if profile.get("knobs"):
        sc["knobs"] = {
            "median_chunk": rnd.choice([1, 2, 3, 5, 7, 50, 100]),
            "bilateral_chunk": rnd.choice([1, 2, 3, 5, 7, 50, 100]),
        }
    return sc


# ---------------------------------------------------------------------------------------------------------------
# execution


def execute(sc, monitor_factories, snapshots=True, ds=None, want_products=False):
    """
    Build the world, check the program on a fresh machine, run it with monitors.
    Returns dict(ok, stage, exc, rec, ctx, left, right, machine).
    """
    ds = ds or world.build(sc["world"])
    knobs.set_knobs(sc.get("knobs"))
    machine, rec = runner.new_machine(snapshots=snapshots)
    ok, out = runner.do_check(machine, programs.to_cfg(sc["program"]), ds)
    res = {"ok": False, "stage": "check", "exc": None, "rec": rec, "ctx": None, "machine": machine, "ds": ds}
    if not ok:
        res["exc"] = out
        return res
    ctx = Ctx(sc, ds, out)
    res["ctx"] = ctx
    rec.events.clear()
    for f in monitor_factories:
        m = f(ctx, rec)
        rec.monitors.append(m)
    ok, out = runner.do_run(machine, ds, copy.deepcopy(ctx.cfg))
    if not ok:
        res["stage"] = "run"
        res["exc"] = out
        return res
    res["ok"] = True
    res["stage"] = "done"
    res["left"], res["right"] = out
    return res


def simplify_pipeline(sc, keep_kinds=(), min_rows=5, min_cols=6):
    """Generic candidates: drop steps (keeping legality), drop masks, shrink the world, default parameters."""
    prog = sc["program"]
    for i in range(len(prog) - 1, -1, -1):
        k = programs.kind_of(prog[i][0])
        if k in ("matching_cost", "disparity"):
            continue
        c = copy.deepcopy(sc)
        del c["program"][i]
        # a median_for_intervals filter needs its confidence bands: dropping those makes the run fail differently,
        # which the shrinker rejects by itself (violation class changes)
        yield c
    w = sc["world"]
    for side in ("mask_left", "mask_right"):
        if w.get(side):
            c = copy.deepcopy(sc)
            c["world"][side] = None
            yield c
    if w["bands"] > 1:
        c = copy.deepcopy(sc)
        c["world"]["bands"] = 1
        for n, p in c["program"]:
            p.pop("band", None)
            if "RGB_bands" in p:
                p["RGB_bands"] = None
        yield c
    if w["disp"]["kind"] == "grid":
        c = copy.deepcopy(sc)
        c["world"]["disp"] = {"kind": "scalar", "min": w["disp"]["lo"], "max": w["disp"]["hi"]}
        c["world"]["disp_right"] = None
        yield c
    for key, mn in (("rows", min_rows), ("cols", min_cols)):
        if w[key] > mn:
            c = copy.deepcopy(sc)
            c["world"][key] = max(mn, w[key] - max(1, (w[key] - mn) // 2))
            yield c
            c = copy.deepcopy(sc)
            c["world"][key] = w[key] - 1
            yield c
    if sc.get("knobs"):
        c = copy.deepcopy(sc)
        c.pop("knobs")
        yield c
    for i, (n, p) in enumerate(prog):
        for k in list(p):
            if k.endswith("_method") or k in ("band", "RGB_bands", "interval_indicator", "ambiguity_indicator"):
                continue
            c = copy.deepcopy(sc)
            del c["program"][i][1][k]
            yield c
    if w["left"].get("hi", 0) > 3:
        c = copy.deepcopy(sc)
        c["world"]["left"]["hi"] = 3
        yield c
