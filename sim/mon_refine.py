"""
C06 monitor: refinement moves a disparity by at most half a sample, never for the worse.   DESIGN.md §5 (C06)
Evaluated at every refinement event of a program, on every computed side, from the pre/post snapshots.
"""
import math

import numpy as np

from sim.pipeline import INVALID_BITS

B3 = 8


def vfit_ref(c0, c1, c2, inv):
    a = c2 - c1
    if inv * c0 > inv * c2:
        a = c0 - c1
    if abs(a) < 1e-15:
        return 0.0, c1
    x = (c0 - c2) / (2 * a)
    return x, c2 + a * (x - 1)


def quad_ref(c0, c1, c2, inv):
    den = c0 - 2 * c1 + c2
    if den == 0:
        return None, c1  # flat triple: every position is an optimum, the fitted cost is c1
    x = (c0 - c2) / (2 * den)
    x = min(1.0, max(-1.0, x))
    return x, c1 - (c0 - c2) ** 2 / (8 * den)


class RefinementMonitor:
    def __init__(self, ctx, rec):
        self.ctx = ctx
        self.rec = rec

    def v(self, cls, ev, side, **kw):
        sig = {"method": self.ctx.params[ev["name"]].get("refinement_method"), **kw.pop("sig", {})}
        self.rec.violation("C06." + cls, sig=sig, step=ev["name"], side=side, seq=ev["seq"], **kw)

    def after(self, ev, pre, post, machine):
        if ev["kind"] != "refinement" or ev["phase"] != "run" or post is None:
            return
        sides = ["left"] + (["right"] if machine.right_disp_map == "cross_checking_accurate" else [])
        for side in sides:
            self.check_side(ev, side, pre[side], post[side], machine)

    def check_side(self, ev, side, pre, post, machine):
        ctx = self.ctx
        a, b, cv = pre["disp"], post["disp"], pre["cv"]
        if a is None or b is None or cv is None:
            return
        method = ctx.params[ev["name"]].get("refinement_method")
        d0 = a["disparity_map"].astype(np.float64)
        d1 = b["disparity_map"].astype(np.float64)
        m0 = a["validity_mask"].astype(np.int64)
        m1 = b["validity_mask"].astype(np.int64)
        coeff = b.get("interpolated_coeff")
        costs = cv["cost_volume"].astype(np.float64)
        disp = cv["disp"].astype(np.float64)
        gmin, gmax = float(disp[0]), float(disp[-1])
        subpix = int(cv["attrs"]["subpixel"])
        inv = -1.0 if cv["attrs"]["type_measure"] == "max" else 1.0
        rows, cols = d0.shape
        if side == "left":
            pmin, pmax = machine.disp_min, machine.disp_max
        else:
            pmin, pmax = machine.right_disp_min, machine.right_disp_max
        pmin = np.broadcast_to(np.asarray(pmin, dtype=float), (rows, cols))
        pmax = np.broadcast_to(np.asarray(pmax, dtype=float), (rows, cols))
        half = 0.5 / subpix
        nd = costs.shape[2]
        invalid = (m0 & INVALID_BITS) != 0
        # ---- invalid pixels untouched
        same = (d0 == d1) | (np.isnan(d0) & np.isnan(d1))
        if (invalid & ~same).any() or (invalid & (m0 != m1)).any():
            p = np.argwhere(invalid & (~same | (m0 != m1)))[0]
            self.v("invalid_pixel_touched", ev, side, pixel=[int(p[0]), int(p[1])])
            return
        if coeff is not None and (invalid & ~np.isnan(coeff)).any():
            p = np.argwhere(invalid & ~np.isnan(coeff))[0]
            self.v("invalid_pixel_coeff_not_nan", ev, side, pixel=[int(p[0]), int(p[1])])
            return
        reported_offsample = False
        for r in range(rows):
            for c in range(cols):
                if invalid[r, c]:
                    continue
                x0, x1 = d0[r, c], d1[r, c]
                if not math.isfinite(x0):
                    ctx.probe("valid_pixel_nonfinite_input")
                    continue
                if not math.isfinite(x1):
                    self.v("nonfinite_output", ev, side, pixel=[r, c], before=x0)
                    return
                if abs(x1 - x0) > half + 1e-6:
                    self.v("shift_gt_half_sample", ev, side, pixel=[r, c], before=x0, after=x1, sig={"subpix": subpix})
                    return
                if (m0[r, c] ^ m1[r, c]) & ~B3:
                    self.v("foreign_bit_changed", ev, side, pixel=[r, c], before=int(m0[r, c]), after=int(m1[r, c]))
                    return
                if x0 < gmin - 1e-6 or x0 > gmax + 1e-6:
                    # received from an earlier step already outside the searched interval (e.g. mc-cnn filling can
                    # output 0.0): nothing the refinement clause can be held to, apart from not moving it further
                    ctx.probe("input_already_outside_interval")
                    continue
                pos = (x0 - gmin) * subpix
                # exactly on a sampled disparity (float32 values of samples are exact): a value that is off by 1e-8
                # (left by a bilateral filter) is an off-sample input for the implementation, which truncates it
                # (compared as values, not as float64 positions: -6.7e-23 left by a bilateral filter with a tiny
                # sigma_color has position 4.0 in float64 and is nevertheless not the sample 0.0)
                on_sample = pos == round(pos) and 0 <= round(pos) < nd and gmin + round(pos) / subpix == x0
                if not on_sample and gmin <= x0 <= gmax:
                    # an off-sample input whose sample index (the one the implementation truncates it to; taken only
                    # when float32 and float64 arithmetic agree on it) is an end of the interval has no neighbouring
                    # cost on that side: "its sample sits on an end of the interval" - left where it was, bit 3
                    x32 = np.float32(x0)
                    k64 = int((float(x32) - gmin) * subpix)
                    k32 = int((x32 - np.float32(gmin)) * np.float32(subpix))
                    if k64 == k32 and k64 in (0, nd - 1) and not math.isnan(costs[r, c, k64]):
                        ctx.probe("off_sample_input_with_end_index")
                        if x1 != x0 or not (m1[r, c] & B3):
                            self.v("bit3_rule", ev, side, pixel=[r, c], before=x0, after=x1,
                                   sig={"off_sample_end_index": True, "has_bit3": bool(m1[r, c] & B3),
                                        "moved": bool(x1 != x0)})
                            return
                        continue
                if x1 < gmin - 1e-6 or x1 > gmax + 1e-6:
                    if on_sample or not reported_offsample:
                        self.v("outside_global_interval", ev, side, pixel=[r, c], before=x0, after=x1,
                               interval=[gmin, gmax], sig={"on_sample": bool(on_sample)})
                    if on_sample:
                        return
                    reported_offsample = True  # keep checking the other pixels of this event
                    continue
                if not on_sample:
                    ctx.probe("off_sample_input")
                    continue
                if x1 < pmin[r, c] - 1e-6 or x1 > pmax[r, c] + 1e-6:
                    if pmin[r, c] - 1e-6 <= x0 <= pmax[r, c] + 1e-6:
                        self.v("outside_pixel_interval", ev, side, pixel=[r, c], before=x0, after=x1,
                               interval=[float(pmin[r, c]), float(pmax[r, c])])
                        return
                k = int(round(pos))
                c1 = costs[r, c, k]
                if math.isnan(c1):
                    ctx.probe("valid_pixel_own_cost_nan")
                    continue
                at_end = k == 0 or k == nd - 1
                c0 = costs[r, c, k - 1] if k > 0 else float("nan")
                c2 = costs[r, c, k + 1] if k < nd - 1 else float("nan")
                stopped = at_end or math.isnan(c0) or math.isnan(c2) or inv * c1 > inv * c0 or inv * c1 > inv * c2
                had3 = bool(m0[r, c] & B3)
                has3 = bool(m1[r, c] & B3)
                if at_end:
                    ctx.probe("sample_at_interval_end")
                if stopped:
                    if not has3 or x1 != x0:
                        self.v("bit3_rule", ev, side, pixel=[r, c], before=x0, after=x1, costs=[c0, c1, c2],
                               sig={"expected_stop": True, "has_bit3": has3, "moved": x1 != x0})
                        return
                    continue
                if has3 and not had3:
                    self.v("bit3_rule", ev, side, pixel=[r, c], before=x0, after=x1, costs=[c0, c1, c2],
                           sig={"expected_stop": False, "has_bit3": True, "moved": x1 != x0})
                    return
                if c0 == c1 == c2:
                    ctx.probe("flat_triple")
                if c0 == c1 or c2 == c1:
                    ctx.probe("tied_neighbour")
                xr_, yr = (vfit_ref if method == "vfit" else quad_ref)(c0, c1, c2, inv)
                scale = max(1.0, abs(c0), abs(c1), abs(c2))
                if xr_ is not None:
                    if abs((x1 - x0) * subpix - xr_) > 1e-4 + 1e-5 * abs(xr_):
                        self.v("not_the_fit_optimum", ev, side, pixel=[r, c], before=x0, after=x1, costs=[c0, c1, c2],
                               expected_shift=xr_ / subpix)
                        return
                if coeff is not None:
                    y = float(coeff[r, c])
                    if not math.isfinite(y) or abs(y - yr) > 1e-4 * scale:
                        self.v("coeff_not_fitted_cost", ev, side, pixel=[r, c], costs=[c0, c1, c2], coeff=y, expected=yr)
                        return
                    if inv * y > inv * c1 + 1e-5 * scale:
                        self.v("coeff_worse_than_sample", ev, side, pixel=[r, c], costs=[c0, c1, c2], coeff=y)
                        return
                ctx.bump("fit_pixels_checked")
        ctx.bump("refinement_events_checked")
        ctx.probe("refinement_after_offsample_step", int(ctx.probes.get("off_sample_input", 0) > 0))
