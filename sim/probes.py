"""
Probes: instance-level wrappers of the machine's step callbacks (transitions resolves callbacks by name on the model at
trigger time) and class-level recorders of the plugin methods.  Probes only read and copy.  DESIGN.md §3.2.
"""
import hashlib

import numpy as np

RUN_CALLBACKS = {
    "matching_cost": "matching_cost_run",
    "aggregation": "aggregation_run",
    "optimization": "optimization_run",
    "semantic_segmentation": "semantic_segmentation_run",
    "cost_volume_confidence": "cost_volume_confidence_run",
    "disparity": "disparity_run",
    "filter": "filter_run",
    "refinement": "refinement_run",
    "validation": "validation_run",
    "multiscale": "run_multiscale",
}
CHECK_CALLBACKS = {k: k + "_check_conf" for k in RUN_CALLBACKS}

CV_VARS = ["cost_volume", "validity_mask", "confidence_measure"]
DISP_VARS = ["disparity_map", "validity_mask", "confidence_measure", "interpolated_coeff", "disparity_interval"]


# ---------------------------------------------------------------------------------------------------------------
# digests


def _canon(a):
    a = np.asarray(a)
    if a.dtype.kind == "f":
        a = np.where(np.isnan(a), np.array(np.nan, dtype=a.dtype), a)
        a = a + np.array(0, dtype=a.dtype)  # -0.0 stays -0.0; just forces a fresh contiguous array
    return np.ascontiguousarray(a)


def digest_array(h, name, a):
    a = _canon(a)
    h.update(name.encode())
    h.update(str(a.dtype).encode())
    h.update(str(a.shape).encode())
    h.update(a.tobytes())


def _attr_render(v):
    if isinstance(v, np.ndarray):
        return "nd:" + hashlib.sha1(_canon(v).tobytes()).hexdigest()[:12]
    if isinstance(v, float) and v != v:
        return "nan"
    return repr(v)


def digest_dataset(ds, variables=None, attrs=True):
    """sha256 of variables (dtype, shape, bytes), indicator labels and attrs of an xarray dataset (or None/empty)."""
    h = hashlib.sha256()
    if ds is None:
        h.update(b"<none>")
        return h.hexdigest()
    names = sorted(str(v) for v in ds.data_vars)
    if variables is not None:
        names = [n for n in names if n in variables]
    for n in names:
        digest_array(h, n, ds[n].data)
        h.update(repr(tuple(ds[n].dims)).encode())
    if "indicator" in ds.coords:
        h.update(repr([str(x) for x in ds.coords["indicator"].data]).encode())
    if "disp" in ds.coords:
        digest_array(h, "disp", ds.coords["disp"].data)
    if attrs:
        for k in sorted(ds.attrs):
            h.update(k.encode())
            h.update(_attr_render(ds.attrs[k]).encode())
    return h.hexdigest()


def digest_products(left, right, attrs=True):
    return hashlib.sha256(
        (digest_dataset(left, attrs=attrs) + "|" + digest_dataset(right, attrs=attrs)).encode()
    ).hexdigest()


def datasets_equal(a, b):
    """Deep equality of two datasets (vars bit-for-bit incl. NaN, dtypes, dims, coords, attrs). Returns reason or None."""
    if sorted(map(str, a.data_vars)) != sorted(map(str, b.data_vars)):
        return f"variables {sorted(map(str, a.data_vars))} != {sorted(map(str, b.data_vars))}"
    for v in a.data_vars:
        x, y = a[v], b[v]
        if x.dtype != y.dtype:
            return f"{v}: dtype {x.dtype} != {y.dtype}"
        if x.dims != y.dims or x.shape != y.shape:
            return f"{v}: dims/shape"
        if _canon(x.data).tobytes() != _canon(y.data).tobytes():
            return f"{v}: values"
    if sorted(map(str, a.coords)) != sorted(map(str, b.coords)):
        return f"coords {sorted(map(str, a.coords))} != {sorted(map(str, b.coords))}"
    for c in a.coords:
        xa, xb = np.asarray(a.coords[c].data), np.asarray(b.coords[c].data)
        if xa.shape != xb.shape or xa.dtype != xb.dtype or xa.tolist() != xb.tolist():
            return f"coord {c}"
    if sorted(a.attrs) != sorted(b.attrs):
        return f"attrs keys {sorted(a.attrs)} != {sorted(b.attrs)}"
    for k in a.attrs:
        if _attr_render(a.attrs[k]) != _attr_render(b.attrs[k]):
            return f"attr {k}"
    return None


# ---------------------------------------------------------------------------------------------------------------
# snapshots


def snap_ds(ds, variables):
    if ds is None:
        return None
    try:
        present = [v for v in variables if v in ds.data_vars]
    except Exception:  # not a dataset
        return None
    if not present:
        return None
    out = {v: np.array(ds[v].data, copy=True) for v in present}
    if "indicator" in ds.coords:
        out["indicator"] = [str(x) for x in np.atleast_1d(ds.coords["indicator"].data)]
    else:
        out["indicator"] = []
    if "disp" in ds.coords:
        out["disp"] = np.array(ds.coords["disp"].data, copy=True)
    out["attrs"] = {
        k: ds.attrs.get(k)
        for k in ("type_measure", "subpixel", "offset_row_col", "window_size", "measure", "cmax", "band_correl")
        if k in ds.attrs
    }
    return out


def snapshot(machine):
    s = {"state": machine.state, "scale": machine.current_scale}
    for side in ("left", "right"):
        img = getattr(machine, side + "_img")
        shape = None
        if img is not None and "row" in img.sizes:
            shape = (int(img.sizes["row"]), int(img.sizes["col"]))
        s[side] = {
            "cv": snap_ds(getattr(machine, side + "_cv"), CV_VARS),
            "disp": snap_ds(getattr(machine, side + "_disparity"), DISP_VARS),
            "img_shape": shape,
        }
    return s


def snap_digest(s):
    h = hashlib.sha256()
    h.update(repr((s["state"], s["scale"])).encode())
    for side in ("left", "right"):
        h.update(repr(s[side]["img_shape"]).encode())
        for part in ("cv", "disp"):
            d = s[side][part]
            if d is None:
                h.update(b"-")
                continue
            for k in sorted(d):
                v = d[k]
                if isinstance(v, np.ndarray):
                    digest_array(h, k, v)
                elif k == "attrs":
                    h.update(repr(sorted((a, _attr_render(b)) for a, b in v.items())).encode())
                else:
                    h.update(repr(v).encode())
    return h.hexdigest()[:16]


# ---------------------------------------------------------------------------------------------------------------
# event log + instance probes


class Recorder:
    """
    Event log of one machine.  events: dicts with seq, phase ('check'|'run'|'prepare'), kind, name, scale, shape,
    pre/post digests, exception class name.  monitors: objects with optional before(ev, pre, machine) /
    after(ev, pre, post, machine) methods that append to self.violations.
    """

    def __init__(self, snapshots=True, monitors=()):
        self.events = []
        self.calls = []  # plugin-method calls: (seq_of_enclosing_event, method, side)
        self.call_cfgs = []  # (seq_of_enclosing_event, method, copy of the called object's cfg)
        self.violations = []
        self.snapshots = snapshots
        self.monitors = list(monitors)
        self.fault = None  # callable(ev) -> exception to raise before the real step, or None
        self._seq = 0
        self.current = None

    def next_seq(self):
        self._seq += 1
        return self._seq

    def violation(self, cls, **detail):
        self.violations.append({"class": cls, **detail})

    def run_events(self, phase="run"):
        return [e for e in self.events if e["phase"] == phase]

    def log_digest(self):
        h = hashlib.sha256()
        for e in self.events:
            h.update(
                repr(
                    (e["seq"], e["phase"], e["kind"], e["name"], e["scale"], e["shape"], e["pre"], e["post"], e["exc"])
                ).encode()
            )
        for c in self.calls:
            h.update(repr(c).encode())
        return h.hexdigest()


_ACTIVE = {"rec": None, "machine": None}


def instrument(machine, rec):
    """Override the step callbacks on the instance with recording wrappers."""
    machine._verif_rec = rec

    def wrap(kind, phase, attr):
        real = getattr(type(machine), attr)

        def wrapper(cfg, input_step, _real=real, _kind=kind, _phase=phase):
            ev = {
                "seq": rec.next_seq(),
                "phase": _phase,
                "kind": _kind,
                "name": input_step,
                "scale": machine.current_scale,
                "shape": None,
                "pre": None,
                "post": None,
                "exc": None,
            }
            if machine.left_img is not None and "row" in machine.left_img.sizes:
                ev["shape"] = (int(machine.left_img.sizes["row"]), int(machine.left_img.sizes["col"]))
            pre = None
            if rec.snapshots and _phase != "check":
                pre = snapshot(machine)
                ev["pre"] = snap_digest(pre)
            rec.events.append(ev)
            prev = (_ACTIVE["rec"], _ACTIVE["machine"], rec.current)
            _ACTIVE["rec"], _ACTIVE["machine"], rec.current = rec, machine, ev
            try:
                for m in rec.monitors:
                    if hasattr(m, "before"):
                        m.before(ev, pre, machine)
                if rec.fault is not None:
                    exc = rec.fault(ev)
                    if exc is not None:
                        raise exc
                try:
                    out = _real(machine, cfg, input_step)
                except BaseException as e:  # noqa
                    ev["exc"] = type(e).__name__
                    raise
                post = None
                if rec.snapshots and _phase != "check":
                    post = snapshot(machine)
                    ev["post"] = snap_digest(post)
                for m in rec.monitors:
                    if hasattr(m, "after"):
                        m.after(ev, pre, post, machine)
                return out
            finally:
                _ACTIVE["rec"], _ACTIVE["machine"], rec.current = prev

        setattr(machine, attr, wrapper)

    for kind, attr in RUN_CALLBACKS.items():
        wrap(kind, "run", attr)
    for kind, attr in CHECK_CALLBACKS.items():
        wrap(kind, "check", attr)
    wrap("matching_cost", "prepare", "matching_cost_prepare")
    return rec


# ---------------------------------------------------------------------------------------------------------------
# class-level recorders of plugin methods (which side was each called for)

_PATCHED = []


def _side_of(machine, obj):
    for side, names in (
        ("L", ("left_cv", "left_disparity", "left_img")),
        ("R", ("right_cv", "right_disparity", "right_img")),
    ):
        for n in names:
            if getattr(machine, n, None) is obj:
                return side
    return "?"


PLUGIN_METHODS = [
    # (module path, registry attr on abstract class, abstract class name, method, index of the arg that identifies side)
    ("pandora.matching_cost", "AbstractMatchingCost", "matching_cost_methods_avail", "compute_cost_volume", 2),
    ("pandora.aggregation", "AbstractAggregation", "aggreg_methods_avail", "cost_volume_aggregation", 2),
    ("pandora.optimization", "AbstractOptimization", "optimization_methods_avail", "optimize_cv", 0),
    (
        "pandora.semantic_segmentation",
        "AbstractSemanticSegmentation",
        "segmentation_methods_avail",
        "compute_semantic_segmentation",
        0,
    ),
    (
        "pandora.cost_volume_confidence",
        "AbstractCostVolumeConfidence",
        "confidence_methods_avail",
        "confidence_prediction",
        3,
    ),
    ("pandora.disparity", "AbstractDisparity", "disparity_methods_avail", "to_disp", 0),
    ("pandora.filter", "AbstractFilter", "filter_methods_avail", "filter_disparity", 0),
    ("pandora.refinement", "AbstractRefinement", "subpixel_methods_avail", "subpixel_refinement", 1),
    ("pandora.validation", "AbstractValidation", "validation_methods_avail", "disparity_checking", 0),
    ("pandora.validation", "AbstractInterpolation", "interpolation_methods_avail", "interpolated_disparity", 0),
    ("pandora.multiscale", "AbstractMultiscale", "multiscale_methods_avail", "disparity_range", 0),
]


def install_plugin_recorders():
    """Wrap the plugin methods of every registered subclass; log (enclosing event seq, method, side)."""
    import importlib

    if _PATCHED:
        return
    for modname, absname, regname, method, argidx in PLUGIN_METHODS:
        mod = importlib.import_module(modname)
        abstract = getattr(mod, absname)
        registry = getattr(abstract, regname)
        seen = set()
        for sub in registry.values():
            if sub in seen or method not in sub.__dict__:
                # inherited implementation: patch where it is defined
                owner = next((c for c in sub.__mro__ if method in c.__dict__), None)
                if owner is None or owner in seen:
                    continue
                sub = owner
            seen.add(sub)
            real = sub.__dict__[method]
            if isinstance(real, (staticmethod, classmethod)):
                continue

            def make(real=real, method=method, argidx=argidx):
                def recorder(self, *args, **kwargs):
                    rec, machine = _ACTIVE["rec"], _ACTIVE["machine"]
                    if rec is not None and machine is not None:
                        obj = args[argidx] if argidx < len(args) else None
                        side = _side_of(machine, obj)
                        rec.calls.append((rec.current["seq"] if rec.current else 0, method, side))
                        ocfg = getattr(self, "cfg", None)
                        if isinstance(ocfg, dict) and hasattr(rec, "call_cfgs"):
                            rec.call_cfgs.append((rec.current["seq"] if rec.current else 0, method, dict(ocfg)))
                    return real(self, *args, **kwargs)

                recorder.__wrapped__ = real
                recorder.__name__ = real.__name__
                return recorder

            setattr(sub, method, make())
            _PATCHED.append((sub, method, real))


def uninstall_plugin_recorders():
    while _PATCHED:
        sub, method, real = _PATCHED.pop()
        setattr(sub, method, real)
