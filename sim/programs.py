"""
Programs: a pipeline is an ordered list of [step_name, params].  Generators for legal / illegal programs,
the documented automaton (reference model for C01), and valid parameter draws for every built-in method.
"""
import copy

from sim import stubs

KINDS = [
    "matching_cost",
    "aggregation",
    "optimization",
    "semantic_segmentation",
    "cost_volume_confidence",
    "disparity",
    "filter",
    "refinement",
    "validation",
    "multiscale",
]

# documented automaton (docs/source/userguide/sequencing.rst)
DFA = {
    ("begin", "matching_cost"): "cost_volume",
    ("cost_volume", "aggregation"): "cost_volume",
    ("cost_volume", "optimization"): "cost_volume",
    ("cost_volume", "semantic_segmentation"): "cost_volume",
    ("cost_volume", "cost_volume_confidence"): "cost_volume",
    ("cost_volume", "disparity"): "disp_map",
    ("disp_map", "filter"): "disp_map",
    ("disp_map", "refinement"): "disp_map",
    ("disp_map", "validation"): "disp_map",
    ("disp_map", "multiscale"): "disp_map",
}
CV_KINDS = ["aggregation", "optimization", "semantic_segmentation", "cost_volume_confidence"]
DM_KINDS = ["filter", "refinement", "validation", "multiscale"]


def kind_of(step_name):
    return step_name.split(".")[0]


def dfa_accepts(names):
    """True iff the ordered step names spell a path of the documented machine starting in 'begin'."""
    state = "begin"
    for n in names:
        k = kind_of(n)
        nxt = DFA.get((state, k))
        if nxt is None:
            return False
        state = nxt
    return True


def dfa_states(names):
    state = "begin"
    out = [state]
    for n in names:
        state = DFA.get((state, kind_of(n)))
        out.append(state)
        if state is None:
            break
    return out


def to_cfg(program):
    """ordered dict of the pipeline section"""
    return {"pipeline": {name: copy.deepcopy(params) for name, params in program}}


# ---------------------------------------------------------------------------------------------------------------
# parameter draws (all valid)


def p_matching_cost(rnd, world, methods=("sad", "ssd", "census", "zncc"), max_window=None, subpix=(1, 2, 4)):
    method = rnd.choice(list(methods))
    small = min(world["rows"], world["cols"])
    if method == "census":
        ws = rnd.choice([3, 5]) if small > 6 else 3
    else:
        choices = [w for w in (1, 3, 5, 7) if w < small - 1]
        ws = rnd.choice(choices or [1])
    if max_window:
        ws = min(ws, max_window)
        if method == "census" and ws < 3:
            ws = 3
    p = {"matching_cost_method": method, "window_size": ws, "subpix": rnd.choice(list(subpix))}
    if world["bands"] > 1:
        from sim.world import BAND_NAMES

        p["band"] = rnd.choice((world.get("band_names") or BAND_NAMES)[: world["bands"]])
    if rnd.random() < 0.2:
        del p["subpix"]
    return p


def p_aggregation(rnd, world):
    p = {"aggregation_method": "cbca"}
    if rnd.random() < 0.7:
        p["cbca_intensity"] = rnd.choice([1.0, 5.0, 30.0, 0.5])
    if rnd.random() < 0.7:
        p["cbca_distance"] = rnd.choice([1, 2, 3, 5])
    return p


def p_optimization(rnd, world):
    return {"optimization_method": stubs.OPT_METHOD}


def p_semantic_segmentation(rnd, world):
    from sim.world import BAND_NAMES

    if world["bands"] > 1:
        names = (world.get("band_names") or BAND_NAMES)[: world["bands"]]
        rgb = {"R": names[0], "G": names[min(1, len(names) - 1)], "B": names[-1]}
    else:
        rgb = None
    return {"segmentation_method": stubs.SEG_METHOD, "RGB_bands": rgb}


CONF_METHODS = ["ambiguity", "std_intensity", "risk", "interval_bounds"]


def p_confidence(rnd, world, methods=None):
    m = rnd.choice(methods or CONF_METHODS)
    p = {"confidence_method": m}
    if m in ("ambiguity", "risk"):
        # mostly values whose ratio is far from an integer and that do not coincide with quotients of small integer
        # costs, so that sample counts and threshold comparisons are unambiguous and the value oracles apply
        if rnd.random() < 0.8:
            p["eta_max"] = rnd.choice([0.2, 0.5, 0.7, 0.33, 0.9, 0.21, 0.52, 0.83])
        if rnd.random() < 0.8:
            p["eta_step"] = rnd.choice([0.01, 0.05, 0.1, 0.07, 0.013, 0.037, 0.11, 0.023])
        if m == "ambiguity" and rnd.random() < 0.5:
            p["normalization"] = rnd.random() < 0.5
    if m == "interval_bounds":
        if rnd.random() < 0.7:
            p["possibility_threshold"] = rnd.choice([0.5, 0.7, 0.9, 1.0, 0.35])
    return p


def p_disparity(rnd, world, invalid=None):
    p = {"disparity_method": "wta"}
    r = rnd.random()
    if invalid is not None:
        p["invalid_disparity"] = invalid
    elif r < 0.4:
        pass
    elif r < 0.6:
        p["invalid_disparity"] = "NaN"
    elif r < 0.8:
        p["invalid_disparity"] = rnd.choice([-9999, -100, 77, 50])
    else:
        p["invalid_disparity"] = rnd.choice([-31.5, 99.25])
    d = world.get("disp") or {}
    v = p.get("invalid_disparity")
    if d.get("kind") == "scalar" and isinstance(v, (int, float)) and d["min"] - 1 <= v <= d["max"] + 1:
        # the property quantifies over invalid_disparity values that are NaN or outside the searched interval
        p["invalid_disparity"] = -9999
    return p


def p_filter(rnd, world, methods=("median", "bilateral")):
    m = rnd.choice(list(methods))
    p = {"filter_method": m}
    if m == "median":
        if rnd.random() < 0.8:
            p["filter_size"] = rnd.choice([1, 3, 3, 5, 7])
    elif m == "bilateral":
        if rnd.random() < 0.9:
            p["sigma_space"] = rnd.choice([0.4, 0.7, 1.0, 1.3, 2.0, 3.0])
        if rnd.random() < 0.8:
            p["sigma_color"] = rnd.choice([0.5, 1.0, 2.0, 5.0, 0.05])
    elif m == "median_for_intervals":
        if rnd.random() < 0.8:
            p["filter_size"] = rnd.choice([1, 3, 3, 5])
    return p


def p_refinement(rnd, world):
    return {"refinement_method": rnd.choice(["vfit", "quadratic"])}


def p_validation(rnd, world, fill=None):
    p = {"validation_method": "cross_checking_accurate"}
    if rnd.random() < 0.6:
        p["cross_checking_threshold"] = rnd.choice([0, 1, 1.0, 0.5, 2.5])
    if fill is None:
        fill = rnd.random() < 0.4
    if fill:
        p["interpolated_disparity"] = rnd.choice(["mc-cnn", "sgm"])
    return p


def p_multiscale(rnd, world):
    p = {"multiscale_method": "fixed_zoom_pyramid"}
    if rnd.random() < 0.7:
        p["num_scales"] = rnd.choice([2, 2, 3])
    if rnd.random() < 0.5:
        p["scale_factor"] = rnd.choice([2, 2, 3])
    if rnd.random() < 0.5:
        p["marge"] = rnd.choice([0, 1, 2])
    return p


PARAMS = {
    "matching_cost": p_matching_cost,
    "aggregation": p_aggregation,
    "optimization": p_optimization,
    "semantic_segmentation": p_semantic_segmentation,
    "cost_volume_confidence": p_confidence,
    "disparity": p_disparity,
    "filter": p_filter,
    "refinement": p_refinement,
    "validation": p_validation,
    "multiscale": p_multiscale,
}

SUFFIXES = ["1", "2", "a", "b", "x", "amb", "r", "a.b", "a.b.c", "0", "left", "refinement", "filter", "validation",
            "disparity"]


def name_steps(rnd, kinds, suffix_only_p=0.0, allow_multi_dot=False):
    """
    Give each step a unique name: first occurrence of a kind gets the bare kind name (unless suffix_only),
    repeats get '.suffix'.
    """
    seen = {}
    names = []
    used = set()
    for k in kinds:
        n = seen.get(k, 0)
        seen[k] = n + 1
        if n == 0 and rnd.random() >= suffix_only_p:
            name = k
        else:
            pool = [s for s in SUFFIXES if allow_multi_dot or "." not in s]
            for _ in range(30):
                name = k + "." + rnd.choice(pool)
                if name not in used:
                    break
            else:
                name = k + "." + str(len(used) + 100)
        if name in used:
            name = k + "." + str(len(used) + 100)
        used.add(name)
        names.append(name)
    return names


def gen_legal_kinds(rnd, max_cv=3, max_dm=4, allow=None, end_in_dispmap=True, multiscale=False):
    """A random walk of the DFA."""
    allow = set(allow) if allow is not None else set(KINDS)
    kinds = ["matching_cost"]
    cv = [k for k in CV_KINDS if k in allow]
    for _ in range(rnd.randint(0, max_cv)):
        if cv:
            kinds.append(rnd.choice(cv))
    if not end_in_dispmap and rnd.random() < 0.3:
        return kinds
    kinds.append("disparity")
    dm = [k for k in DM_KINDS if k in allow and (multiscale or k != "multiscale")]
    for _ in range(rnd.randint(0, max_dm)):
        if dm:
            kinds.append(rnd.choice(dm))
    return kinds


def build_program(rnd, world, kinds, names=None, overrides=None, suffix_only_p=0.0, allow_multi_dot=False):
    names = names or name_steps(rnd, kinds, suffix_only_p, allow_multi_dot)
    overrides = overrides or {}
    prog = []
    for k, n in zip(kinds, names):
        fn = overrides.get(k, PARAMS[k])
        prog.append([n, fn(rnd, world)])
    return prog


def has_kind(program, kind):
    return any(kind_of(n) == kind for n, _ in program)


def twin_tweaks(rnd, prog, wb):
    """(step index, parameter, other value) changes that give a near-twin of a program: same steps, one parameter changed"""
    tweaks = []
    for si, (n_, p_) in enumerate(prog):
        if p_.get("filter_method") == "bilateral":
            same_width = {0.4: 0.5, 0.7: 0.8, 1.0: 1.3, 1.3: 1.0, 2.0: 2.2, 3.0: 3.2}
            tweaks.append((si, "sigma_space", same_width.get(p_.get("sigma_space", 6.0), 6.2)))
            tweaks.append((si, "sigma_color", p_.get("sigma_color", 2.0) + 1.5))
        elif p_.get("filter_method") == "median":
            tweaks.append((si, "filter_size", 5 if p_.get("filter_size", 3) != 5 else 3))
        elif "matching_cost_method" in p_ and p_["matching_cost_method"] != "census":
            tweaks.append((si, "window_size", 3 if p_.get("window_size", 5) != 3 else 5))
            if p_.get("band"):
                from sim.world import BAND_NAMES  # noqa

                others = [b_ for b_ in (wb.get("band_names") or BAND_NAMES)[: wb["bands"]] if b_ != p_["band"]]
                if others:
                    tweaks.append((si, "band", rnd.choice(others)))
                    tweaks.append((si, "band", rnd.choice(others)))
        elif p_.get("confidence_method") in ("ambiguity", "risk"):
            tweaks.append((si, "eta_max", 0.5 if p_.get("eta_max", 0.7) != 0.5 else 0.33))
        elif "aggregation_method" in p_:
            tweaks.append((si, "cbca_distance", 2 if p_.get("cbca_distance", 5) != 2 else 3))
        elif "validation_method" in p_:
            tweaks.append((si, "cross_checking_threshold", 2.5 if p_.get("cross_checking_threshold", 1.0) != 2.5 else 0))
        elif p_.get("refinement_method"):
            tweaks.append((si, "refinement_method", "vfit" if p_["refinement_method"] == "quadratic" else "quadratic"))
    return tweaks
