"""
I/O seam (DESIGN §4.1): every raster open goes through pandora.img_tools.rasterio_open (bound by name in img_tools,
common and check_configuration), the saved configuration through builtin open in pandora.common, directories through
os.makedirs in pandora.common.  The simulator replaces those names with recording / fault-injecting proxies.
"""
import errno
import os


class IOSeam:
    def __init__(self, faults=None):
        self.calls = []  # dicts: idx, kind (read|write|mkdir|cfg), path, n (index within kind)
        self.counts = {"read": 0, "write": 0, "mkdir": 0, "cfg": 0}
        self.faults = list(faults or [])  # {"kind": read|write|mkdir|cfg, "call": n, "fault": "EIO"|"ENOSPC"|"RasterioIOError"|"garbage"}
        self.fired = []
        self._saved = None

    # -----------------------------------------------------------------------------------------------------------
    def _maybe_fault(self, kind, path):
        n = self.counts[kind]
        self.counts[kind] += 1
        self.calls.append({"idx": len(self.calls), "kind": kind, "n": n, "path": os.path.basename(str(path))})
        for f in self.faults:
            if f["kind"] == kind and f["call"] == n:
                self.fired.append({**f, "path": os.path.basename(str(path))})
                what = f.get("fault", "EIO")
                if what == "garbage":
                    # the file is replaced by garbage just before this open
                    with open(path, "wb") as fh:
                        fh.write(b"this is not a raster" * 7)
                    return
                if what == "RasterioIOError":
                    from rasterio.errors import RasterioIOError

                    raise RasterioIOError(f"injected: cannot open {path}")
                code = {"EIO": errno.EIO, "ENOSPC": errno.ENOSPC, "EACCES": errno.EACCES}[what]
                raise OSError(code, "injected " + what, str(path))

    def install(self):
        import pandora.img_tools as it
        import pandora.common as cm
        import pandora.check_configuration as cc

        real_open = it.rasterio_open
        seam = self

        def rasterio_open_proxy(*args, **kwargs):
            mode = kwargs.get("mode", args[1] if len(args) > 1 and isinstance(args[1], str) else "r")
            kind = "write" if "w" in mode else "read"
            seam._maybe_fault(kind, args[0] if args else kwargs.get("fp"))
            return real_open(*args, **kwargs)

        class OsProxy:
            def __getattr__(self, name):
                return getattr(os, name)

            @staticmethod
            def makedirs(path, *a, **k):
                seam._maybe_fault("mkdir", path)
                return os.makedirs(path, *a, **k)

        def open_proxy(path, *a, **k):
            seam._maybe_fault("cfg", path)
            return open(path, *a, **k)

        self._saved = (it.rasterio_open, cm.rasterio_open, cc.rasterio_open, cm.os, cm.__dict__.get("open"))
        it.rasterio_open = rasterio_open_proxy
        cm.rasterio_open = rasterio_open_proxy
        cc.rasterio_open = rasterio_open_proxy
        cm.os = OsProxy()
        cm.open = open_proxy
        return self

    def uninstall(self):
        import pandora.img_tools as it
        import pandora.common as cm
        import pandora.check_configuration as cc

        if self._saved is None:
            return
        it.rasterio_open, cm.rasterio_open, cc.rasterio_open, cm.os, o = self._saved
        if o is None:
            cm.__dict__.pop("open", None)
        else:
            cm.open = o
        self._saved = None


def run_main(cfg_path, out_dir, seam=None, monitors=(), snapshots=False, capture=True):
    """
    pandora.main under the seam with an instrumented machine.  Returns dict(ok, exc, rec, machine, products, seam).
    """
    import pandora
    from pandora import common
    from sim import runner

    state = {"machine": None, "rec": None, "products": None}
    real_cls = pandora.PandoraMachine
    real_save = common.save_results

    def factory():
        m, rec = runner.new_machine(monitors=monitors, snapshots=snapshots)
        state["machine"], state["rec"] = m, rec
        return m

    def save_proxy(left, right, output):
        if capture:
            state["products"] = (left.copy(deep=True), right.copy(deep=True))
        return real_save(left, right, output)

    pandora.PandoraMachine = factory
    common.save_results = save_proxy
    if seam is not None:
        seam.install()
    try:
        try:
            pandora.main(cfg_path, out_dir, False)
            ok, exc = True, None
        except Exception as e:  # noqa
            ok, exc = False, e
    finally:
        if seam is not None:
            seam.uninstall()
        pandora.PandoraMachine = real_cls
        common.save_results = real_save
    return {"ok": ok, "exc": exc, "rec": state["rec"], "machine": state["machine"], "products": state["products"],
            "seam": seam}
