"""
Simulated prange schedules (DESIGN §3.4).

The Python source of a numba kernel (dispatcher.py_func) is rewritten so that each iteration of an outermost
`for .. in prange(..)` loop becomes a generator that yields after every statement (and between the load and the store of
every `a[i] op= v`); a seeded scheduler decides which simulated thread advances.  Memory model: sequential consistency at
statement granularity plus split read-modify-write on subscripted targets.
"""
import ast
import copy
import hashlib
import inspect
import textwrap

import numpy as np


class TransformError(Exception):
    pass


# ---------------------------------------------------------------------------------------------------------------
# AST transformation


def _is_prange_for(node):
    return (
        isinstance(node, ast.For)
        and isinstance(node.iter, ast.Call)
        and isinstance(node.iter.func, ast.Name)
        and node.iter.func.id == "prange"
    )


def _assigned_names(nodes):
    out = set()
    for n in nodes:
        for sub in ast.walk(n):
            if isinstance(sub, (ast.Assign, ast.AugAssign, ast.AnnAssign)):
                targets = sub.targets if isinstance(sub, ast.Assign) else [sub.target]
                for t in targets:
                    for x in ast.walk(t):
                        if isinstance(x, ast.Name) and isinstance(x.ctx, ast.Store):
                            out.add(x.id)
            elif isinstance(sub, ast.For):
                for x in ast.walk(sub.target):
                    if isinstance(x, ast.Name):
                        out.add(x.id)
    return out


def _scalar_augassign_names(nodes):
    out = set()
    for n in nodes:
        for sub in ast.walk(n):
            if isinstance(sub, ast.AugAssign) and isinstance(sub.target, ast.Name):
                out.add(sub.target.id)
    return out


class _BodyRewriter(ast.NodeTransformer):
    """inside a parallel body: prange -> range, split subscripted aug-assign, yield after every statement"""

    def __init__(self, reductions):
        self.reductions = reductions
        self.counter = 0
        self.rmw_sites = 0

    def _yield(self, lineno):
        return ast.Expr(value=ast.Yield(value=ast.Constant(value=lineno)))

    def _rewrite_block(self, stmts):
        out = []
        for st in stmts:
            lineno = getattr(st, "lineno", 0)
            if isinstance(st, (ast.FunctionDef, ast.Return, ast.Global, ast.Nonlocal)):
                raise TransformError(f"unsupported statement in prange body: {type(st).__name__} at line {lineno}")
            if isinstance(st, ast.AugAssign) and isinstance(st.target, ast.Subscript):
                # __v = value ; __t = target ; yield ; target = __t op __v
                self.counter += 1
                self.rmw_sites += 1
                v, t, ix = f"__v{self.counter}", f"__t{self.counter}", f"__i{self.counter}"
                value = self.visit(st.value)
                index = self.visit(st.target.slice)
                base = self.visit(st.target.value)
                out.append(ast.Assign(targets=[ast.Name(id=v, ctx=ast.Store())], value=value))
                out.append(ast.Assign(targets=[ast.Name(id=ix, ctx=ast.Store())], value=index))
                load = ast.Subscript(value=copy.deepcopy(base), slice=ast.Name(id=ix, ctx=ast.Load()), ctx=ast.Load())
                out.append(ast.Assign(targets=[ast.Name(id=t, ctx=ast.Store())], value=load))
                out.append(ast.Expr(value=ast.Yield(value=ast.Constant(value=-lineno))))  # negative = inside a RMW
                store = ast.Subscript(value=copy.deepcopy(base), slice=ast.Name(id=ix, ctx=ast.Load()), ctx=ast.Store())
                out.append(
                    ast.Assign(
                        targets=[store],
                        value=ast.BinOp(left=ast.Name(id=t, ctx=ast.Load()), op=st.op, right=ast.Name(id=v, ctx=ast.Load())),
                    )
                )
                out.append(self._yield(lineno))
                continue
            if isinstance(st, (ast.For, ast.While)):
                if isinstance(st, ast.For) and _is_prange_for(st):
                    st.iter.func = ast.Name(id="range", ctx=ast.Load())  # numba parallelises the outer loop only
                if isinstance(st, ast.For):
                    st.iter = self.visit(st.iter)
                else:
                    st.test = self.visit(st.test)
                st.body = self._rewrite_block(st.body)
                st.orelse = self._rewrite_block(st.orelse) if st.orelse else []
                out.append(st)
                out.append(self._yield(lineno))
                continue
            if isinstance(st, ast.If):
                st.test = self.visit(st.test)
                st.body = self._rewrite_block(st.body)
                st.orelse = self._rewrite_block(st.orelse) if st.orelse else []
                out.append(st)
                out.append(self._yield(lineno))
                continue
            if isinstance(st, (ast.With, ast.Try)):
                raise TransformError(f"unsupported compound statement in prange body at line {lineno}")
            out.append(self.visit(st))
            if not isinstance(st, (ast.Continue, ast.Break, ast.Pass)):
                out.append(self._yield(lineno))
        return out


class _Transformer:
    def __init__(self, fn_name):
        self.regions = 0
        self.rmw_sites = 0
        self.fn_name = fn_name

    def transform_block(self, stmts, bound_before):
        """replace outermost prange loops found in this statement list (recursing into if/else, plain for/while)"""
        out = []
        bound = set(bound_before)
        for st in stmts:
            if _is_prange_for(st):
                out += self.make_region(st, bound)
                # names assigned inside a parallel body are private to its iterations: they are not bound afterwards
                continue
            elif isinstance(st, ast.If):
                st.body = self.transform_block(st.body, bound)
                st.orelse = self.transform_block(st.orelse, bound) if st.orelse else []
                out.append(st)
            elif isinstance(st, (ast.For, ast.While)):
                # a sequential loop that contains a parallel region
                st.body = self.transform_block(st.body, bound | _assigned_names([st]))
                out.append(st)
            else:
                out.append(st)
            bound |= _assigned_names([st])
        return out

    def make_region(self, loop, bound):
        if not isinstance(loop.target, ast.Name):
            raise TransformError("prange loop target must be a simple name")
        k = self.regions
        self.regions += 1
        assigned = _assigned_names(loop.body)
        reductions = {n for n in _scalar_augassign_names(loop.body) if n in bound}
        firstprivate = sorted(n for n in assigned if n in bound and n not in reductions and n != loop.target.id)
        rw = _BodyRewriter(reductions)
        body = rw._rewrite_block(copy.deepcopy(loop.body))
        self.rmw_sites += rw.rmw_sites
        pre = []
        if reductions:
            pre.append(ast.Nonlocal(names=sorted(reductions)))
        # the iteration body runs inside a one-pass loop so that a `continue` written directly in the prange body
        # (= "skip the rest of this iteration") stays legal once the body has become a function
        once = ast.For(target=ast.Name(id="__once", ctx=ast.Store()),
                       iter=ast.Tuple(elts=[ast.Constant(value=0)], ctx=ast.Load()), body=body or [ast.Pass()], orelse=[])
        # make sure the function is a generator even if the body is empty
        body = pre + [once, ast.Expr(value=ast.Yield(value=ast.Constant(value=0)))]
        args = ast.arguments(
            posonlyargs=[],
            args=[ast.arg(arg=loop.target.id)] + [ast.arg(arg=n) for n in firstprivate],
            kwonlyargs=[], kw_defaults=[],
            defaults=[ast.Name(id=n, ctx=ast.Load()) for n in firstprivate],
        )
        fdef = ast.FunctionDef(name=f"__prange_body_{k}", args=args, body=body, decorator_list=[], returns=None,
                               type_params=[])
        call = ast.Expr(
            value=ast.Call(
                func=ast.Attribute(value=ast.Name(id="__sim", ctx=ast.Load()), attr="run_region", ctx=ast.Load()),
                args=[ast.Constant(value=k),
                      ast.Call(func=ast.Name(id="range", ctx=ast.Load()), args=loop.iter.args, keywords=[]),
                      ast.Name(id=f"__prange_body_{k}", ctx=ast.Load())],
                keywords=[],
            )
        )
        return [fdef, call]


_CACHE = {}


def transform(dispatcher):
    """returns (callable(sim, *args), info) for a numba dispatcher whose source contains prange"""
    key = (dispatcher.py_func.__module__, dispatcher.py_func.__qualname__)
    if key in _CACHE:
        return _CACHE[key]
    fn = dispatcher.py_func
    src = textwrap.dedent(inspect.getsource(fn))
    tree = ast.parse(src)
    fdef = tree.body[0]
    if not isinstance(fdef, ast.FunctionDef):
        raise TransformError("not a function")
    fdef.decorator_list = []
    fdef.returns = None
    for a in fdef.args.args:
        a.annotation = None
    tr = _Transformer(fdef.name)
    bound = {a.arg for a in fdef.args.args}
    fdef.body = tr.transform_block(fdef.body, bound)
    if tr.regions == 0:
        raise TransformError("no outermost prange loop found")
    fdef.args.args.insert(0, ast.arg(arg="__sim"))
    ast.fix_missing_locations(tree)
    g = dict(fn.__globals__)
    g["prange"] = range
    code = compile(tree, filename=f"<prange-sim {key[1]}>", mode="exec")
    exec(code, g)  # noqa: S102 - executing the repository's own kernel source, rewritten
    out = (g[fdef.name], {"regions": tr.regions, "rmw_sites": tr.rmw_sites, "name": key[1],
                          "source_lines": len(src.splitlines())})
    _CACHE[key] = out
    return out


def discover():
    """all dispatchers of pandora.* whose Python source has a prange loop: {qualname: dispatcher}"""
    from sim import harness

    out = {}
    for (mod, qual), d in harness.find_dispatchers().items():
        try:
            src = inspect.getsource(d.py_func)
        except (OSError, TypeError):
            continue
        if "prange(" in src:
            out[qual] = d
    return out


# ---------------------------------------------------------------------------------------------------------------
# scheduler


class Sim:
    """
    One simulated execution.  strategy in sequential | uniform | perm | pct | lockstep ; `choices` (explicit thread
    choice list per region) overrides the strategy (replay).
    """

    def __init__(self, strategy="sequential", threads=2, seed=0, assignment="static", choices=None, max_steps=200000):
        import random

        self.strategy = strategy
        self.threads = threads
        self.rnd = random.Random(seed)
        self.assignment = assignment
        self.replay = copy.deepcopy(choices) if choices is not None else None
        self.max_steps = max_steps
        self.log = []  # per region: list of thread choices
        self.steps = 0
        self.switches = 0
        self.rmw_interleaved = 0
        self.partitions = []

    def signature(self):
        return hashlib.sha1(repr(self.log).encode()).hexdigest()[:16]

    def run_region(self, k, iterations, body):
        its = list(iterations)
        T = 1 if self.strategy == "sequential" else max(1, min(self.threads, len(its) or 1))
        queues = [[] for _ in range(T)]
        if self.strategy == "perm":
            order = its[:]
            self.rnd.shuffle(order)
            queues = [order]
            T = 1
        elif self.assignment == "static" or self.strategy == "sequential":
            n = len(its)
            base, extra = divmod(n, T)
            pos = 0
            for t in range(T):
                size = base + (1 if t < extra else 0)
                queues[t] = its[pos:pos + size]
                pos += size
        else:
            for it in its:
                queues[self.rnd.randrange(T)].append(it)
        self.partitions.append([len(q) for q in queues])
        gens = [None] * T
        in_rmw = [False] * T
        choices = []
        replay = self.replay[len(self.log)] if self.replay is not None and len(self.log) < len(self.replay) else None
        rpos = 0
        prio = list(range(T))
        self.rnd.shuffle(prio)
        change_points = sorted(self.rnd.sample(range(1, 2000), min(3, 1999))) if self.strategy == "pct" else []
        last = None
        local_steps = 0

        def live(t):
            return gens[t] is not None or queues[t]

        while True:
            alive = [t for t in range(T) if live(t)]
            if not alive:
                break
            if replay is not None and rpos < len(replay) and replay[rpos] in alive:
                t = replay[rpos]
            elif replay is not None:
                t = alive[0]
            elif self.strategy in ("sequential", "perm"):
                t = alive[0]
            elif self.strategy == "uniform":
                t = self.rnd.choice(alive)
            elif self.strategy == "pct":
                if change_points and local_steps >= change_points[0]:
                    change_points.pop(0)
                    hi = max(alive, key=lambda x: prio[x])
                    prio[hi] = min(prio) - 1
                t = max(alive, key=lambda x: prio[x])
            elif self.strategy == "lockstep":
                # round-robin: every thread executes one statement before any executes the next
                t = alive[(alive.index(last) + 1) % len(alive)] if last in alive else alive[0]
            else:
                raise ValueError(self.strategy)
            rpos += 1
            if gens[t] is None:
                gens[t] = body(queues[t].pop(0))
            try:
                label = next(gens[t])
                was = in_rmw[t]
                in_rmw[t] = isinstance(label, int) and label < 0
                if last is not None and last != t:
                    self.switches += 1
                    if in_rmw[last]:
                        self.rmw_interleaved += 1
            except StopIteration:
                gens[t] = None
                in_rmw[t] = False
            choices.append(t)
            last = t
            local_steps += 1
            self.steps += 1
            if self.steps > self.max_steps:
                raise TransformError("simulated schedule exceeded the step cap")
        self.log.append(choices)


def _unwrap(a):
    """dispatcher arguments are called through their Python source"""
    if hasattr(a, "py_func"):
        return a.py_func
    return a


def run_sim(dispatcher, args, sim):
    fn, info = transform(dispatcher)
    cargs = [copy.deepcopy(a) if isinstance(a, np.ndarray) else _unwrap(a) for a in args]
    import warnings

    with warnings.catch_warnings():
        warnings.simplefilter("ignore")
        old = np.seterr(all="ignore")
        try:
            ret = fn(sim, *cargs)
        finally:
            np.seterr(**old)
    outs = list(ret) if isinstance(ret, tuple) else [ret]
    # mutated array arguments are outputs too
    outs += [a for a in cargs if isinstance(a, np.ndarray)]
    return outs, info


def outputs_equal(a, b):
    if len(a) != len(b):
        return False
    for x, y in zip(a, b):
        x, y = np.asarray(x), np.asarray(y)
        if x.shape != y.shape or x.dtype != y.dtype:
            return False
        if x.dtype.kind == "f":
            if not ((x == y) | (np.isnan(x) & np.isnan(y))).all():
                return False
        elif not (x == y).all():
            return False
    return True


def outputs_close(a, b, rtol=1e-5, atol=1e-6):
    if len(a) != len(b):
        return "count"
    for i, (x, y) in enumerate(zip(a, b)):
        x, y = np.asarray(x, dtype=np.float64), np.asarray(y, dtype=np.float64)
        if x.shape != y.shape:
            return f"shape[{i}]"
        if (np.isnan(x) != np.isnan(y)).any():
            return f"nan-pattern[{i}]"
        ok = np.isnan(x) | (np.abs(x - y) <= atol + rtol * np.maximum(np.abs(x), np.abs(y)))
        if not ok.all():
            return f"values[{i}]"
    return None
