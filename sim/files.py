"""Worlds as files: GeoTIFF rasters on a scratch directory + the JSON input section that points at them."""
import json
import os
import shutil
import tempfile

import numpy as np

from sim import world


def scratch_dir(prefix="verif_"):
    base = os.environ.get("VERIF_TMP") or tempfile.gettempdir()
    return tempfile.mkdtemp(prefix=prefix, dir=base)


def cleanup(path):
    shutil.rmtree(path, ignore_errors=True)


def write_raster(path, data, dtype=None, crs=None, transform=None, descriptions=None, nodata=None):
    import rasterio
    from rasterio import Affine

    data = np.asarray(data)
    if data.ndim == 2:
        data = data[None]
    dtype = dtype or data.dtype
    kw = {}
    if crs is not None:
        kw["crs"] = crs
        kw["transform"] = Affine(*transform)
    import warnings

    with warnings.catch_warnings():
        warnings.simplefilter("ignore")
        if nodata is not None:
            kw["nodata"] = nodata
        with rasterio.open(
            path, "w", driver="GTiff", height=data.shape[1], width=data.shape[2], count=data.shape[0], dtype=dtype, **kw
        ) as dst:
            dst.write(data.astype(dtype))
            if descriptions:
                for i, d in enumerate(descriptions):
                    dst.set_band_description(i + 1, d)


def write_world(w, directory, img_dtype="float32", nodata_left=-9999, nodata_right=-9999):
    """
    Write the images / masks / grids of a world; returns the 'input' section of a configuration.
    Images carry their nodata value where the mask says nodata (as create_dataset_from_inputs expects); the mask
    raster holds non-zero where the world mask is 'invalid'.
    """
    ds = world.build(w)
    geo = w.get("georef")
    crs = geo["crs"] if geo else None
    tr = geo["transform"] if geo else None
    names = (w.get("band_names") or world.BAND_NAMES[: w["bands"]]) if w["bands"] > 1 else None
    inp = {"left": {}, "right": {}}
    for side, nod in (("left", nodata_left), ("right", nodata_right)):
        d = ds[side]
        im = d["im"].data.copy()
        if "msk" in d:
            m = d["msk"].data
            sel = m == 1
            if im.ndim == 3:
                im[:, sel] = nod
            else:
                im[sel] = nod
            mpath = os.path.join(directory, f"{side}_mask.tif")
            write_raster(mpath, (m == 2).astype(np.uint8) * 255, dtype="uint8", crs=crs, transform=tr)
            inp[side]["mask"] = mpath
        ipath = os.path.join(directory, f"{side}.tif")
        tr_side = geo.get("transform_right", tr) if (geo and side == "right") else tr
        write_raster(ipath, im, dtype=img_dtype, crs=crs, transform=tr_side, descriptions=names)
        inp[side]["img"] = ipath
        inp[side]["nodata"] = nod
    dl = w["disp"]
    if dl["kind"] == "scalar":
        inp["left"]["disp"] = [dl["min"], dl["max"]]
    else:
        gpath = os.path.join(directory, "left_disparity_grid.tif")
        write_raster(gpath, ds["left"]["disparity"].data, dtype="float32", crs=crs, transform=tr)
        inp["left"]["disp"] = gpath
        if w.get("disp_right"):
            gpath = os.path.join(directory, "right_disparity_grid.tif")
            write_raster(gpath, ds["right"]["disparity"].data, dtype="float32", crs=crs, transform=tr)
            inp["right"]["disp"] = gpath
    return inp


def write_json(path, obj):
    def default(o):
        if isinstance(o, float) and o != o:
            return "NaN"
        raise TypeError(type(o))

    with open(path, "w") as f:
        json.dump(obj, f, default=default)
