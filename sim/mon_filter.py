"""
C10 monitor: filters change only valid pixels, to an average of their valid neighbours, independently of the internal
block partition.   DESIGN.md §5 (C10)
"""
import copy
import math

import numpy as np

from sim.pipeline import INVALID_BITS
from sim import knobs, probes

B11 = 1 << 11
ALT_CHUNKS = [1, 2, 3, 5, 7, 50, 100]


def same_bits(a, b):
    return probes._canon(a).tobytes() == probes._canon(b).tobytes() and a.shape == b.shape


class FilterMonitor:
    def __init__(self, ctx, rec, alt_chunks=2):
        self.ctx = ctx
        self.rec = rec
        self.alt_chunks = alt_chunks
        self._copies = {}

    def v(self, cls, ev, side, **kw):
        sig = {"method": self.ctx.params[ev["name"]].get("filter_method"), **kw.pop("sig", {})}
        self.rec.violation("C10." + cls, sig=sig, step=ev["name"], side=side, seq=ev["seq"], **kw)

    def before(self, ev, pre, machine):
        if ev["kind"] != "filter" or ev["phase"] != "run":
            return
        self._copies = {}
        sides = ["left"] + (["right"] if machine.right_disp_map == "cross_checking_accurate" else [])
        for side in sides:
            ds = getattr(machine, side + "_disparity")
            self._copies[side] = [ds.copy(deep=True) for _ in range(self.alt_chunks)]

    def after(self, ev, pre, post, machine):
        if ev["kind"] != "filter" or ev["phase"] != "run" or post is None:
            return
        params = self.ctx.params[ev["name"]]
        cfgp = self.ctx.cfg["pipeline"][ev["name"]]
        method = params["filter_method"]
        for side, copies in self._copies.items():
            a, b = pre[side]["disp"], post[side]["disp"]
            if a is None or b is None:
                continue
            self.check_side(ev, side, method, cfgp, a, b)
            self.block_independence(ev, side, cfgp, copies, getattr(machine, side + "_disparity"), machine)
        self._copies = {}
        self.ctx.bump("filter_events_checked")

    # -----------------------------------------------------------------------------------------------------------
    def block_independence(self, ev, side, cfgp, copies, real, machine):
        from pandora import filter as pfilter
        from pandora import _verif

        current = dict(_verif._knobs)
        rows, cols = real["disparity_map"].shape
        # deterministic choice of alternative partitions from the event (no PRNG in monitors)
        start = (ev["seq"] + rows + cols) % len(ALT_CHUNKS)
        alts = [ALT_CHUNKS[(start + 3 * i) % len(ALT_CHUNKS)] for i in range(len(copies))]
        try:
            for chunk, ds in zip(alts, copies):
                knobs.set_knobs({"median_chunk": chunk, "bilateral_chunk": chunk})
                f = pfilter.AbstractFilter(
                    cfg=copy.deepcopy(dict(cfgp)),
                    image_shape=(machine.left_img.sizes["row"], machine.left_img.sizes["col"]),
                    step=machine.step,
                )
                f.filter_disparity(ds)
                for var in ("disparity_map", "validity_mask", "confidence_measure"):
                    if var in real.data_vars:
                        x, y = real[var].data, ds[var].data
                        if var == "disparity_map" and cfgp.get("filter_method") == "bilateral" and x.shape == y.shape:
                            # the weighted mean is a float reduction: numpy chooses its summation strategy from the
                            # block shape, so the last bits may differ (observed: 6e-18); anything above rounding
                            # level is a dependence on the partition
                            fx, fy = x.astype(np.float64), y.astype(np.float64)
                            eq = (np.isnan(fx) & np.isnan(fy)) | (np.abs(fx - fy) <= 1e-6 * np.maximum(1.0, np.abs(fx)))
                            if eq.all():
                                continue
                        if not same_bits(x, y):
                            self.v("depends_on_block_partition", ev, side, sig={"var": var},
                                   chunks=[current.get("median_chunk"), chunk], shape=[rows, cols])
                            return
                self.ctx.bump("block_partitions_compared")
                nblocks_real = math.ceil(rows / max(1, current.get("median_chunk", 100)))
                self.ctx.probe("block_boundary_crossed", int(chunk < max(rows, cols) or nblocks_real > 1))
        finally:
            knobs.set_knobs(current)

    # -----------------------------------------------------------------------------------------------------------
    def check_side(self, ev, side, method, cfgp, a, b):
        ctx = self.ctx
        m0 = a["validity_mask"].astype(np.int64)
        m1 = b["validity_mask"].astype(np.int64)
        d0 = a["disparity_map"]
        d1 = b["disparity_map"]
        rows, cols = d0.shape
        allowed = B11 if method == "median_for_intervals" else 0
        if ((m0 ^ m1) & ~allowed).any():
            p = np.argwhere(((m0 ^ m1) & ~allowed) != 0)[0]
            self.v("mask_changed", ev, side, pixel=p.tolist(), before=int(m0[p[0], p[1]]), after=int(m1[p[0], p[1]]))
            return
        invalid = (m0 & INVALID_BITS) != 0
        same = (d0 == d1) | (np.isnan(d0) & np.isnan(d1))
        if (invalid & ~same).any():
            p = np.argwhere(invalid & ~same)[0]
            self.v("invalid_pixel_changed", ev, side, pixel=p.tolist())
            return
        ctx.probe("invalid_pixel_in_map", int(invalid.any()))
        if method == "median_for_intervals":
            if not same.all():
                self.v("mfi_changed_disparity", ev, side, pixel=np.argwhere(~same)[0].tolist())
                return
            self.check_mfi_bands(ev, side, cfgp, a, b)
            return
        if method == "median":
            w = int(cfgp["filter_size"])
            lo = w // 2
            first, last_r, last_c = lo, rows - 1 - lo, cols - 1 - lo
            band = (w - 1) // 2
        else:
            w = min(rows, cols, int(3 * float(cfgp["sigma_space"]) + 1))
            off = w // 2
            first, last_r, last_c = off, rows - w + off, cols - w + off
            band = (w - 1) // 2
            ctx.probe("even_bilateral_window", int(w % 2 == 0))
        # edge band untouched
        edge = np.ones((rows, cols), bool)
        if rows > 2 * band and cols > 2 * band:
            edge[band:rows - band, band:cols - band] = False
        if (edge & ~same).any():
            p = np.argwhere(edge & ~same)[0]
            self.v("edge_pixel_changed", ev, side, pixel=p.tolist(), sig={"w": w})
            return
        valid_in = ~invalid & np.isfinite(d0)
        sc = float(cfgp["sigma_color"]) if method == "bilateral" else None
        ss = float(cfgp["sigma_space"]) if method == "bilateral" else None
        d064 = d0.astype(np.float64)
        for r in range(first, last_r + 1):
            for c in range(first, last_c + 1):
                if invalid[r, c] or not np.isfinite(d0[r, c]):
                    continue
                if method == "median":
                    r0, c0 = r - lo, c - lo
                else:
                    r0, c0 = r - off, c - off
                win = d0[r0:r0 + w, c0:c0 + w]
                vin = valid_in[r0:r0 + w, c0:c0 + w]
                vals = win[vin]
                got = float(d1[r, c])
                mn, mx = float(vals.min()), float(vals.max())
                if method == "median":
                    exp = float(np.median(vals))
                    tol = 1e-6 * max(1.0, abs(exp))
                else:
                    win64 = d064[r0:r0 + w, c0:c0 + w]
                    ii, jj = np.mgrid[0:w, 0:w]
                    dist = np.sqrt((ii - w // 2) ** 2 + (jj - w // 2) ** 2)
                    ws_ = np.exp(-0.5 * (dist / ss) ** 2)
                    wc = np.exp(-0.5 * ((win64 - d064[r, c]) / sc) ** 2)
                    wt = (ws_ * wc)[vin]
                    exp = float((wt * win64[vin]).sum() / wt.sum())
                    tol = 1e-4 * max(1.0, abs(exp))
                if not math.isfinite(got) or abs(got - exp) > tol:
                    self.v("not_the_reference_value", ev, side, pixel=[r, c], got=got, expected=exp, sig={"w": w})
                    return
                if got < mn - tol or got > mx + tol:
                    self.v("outside_window_range", ev, side, pixel=[r, c], got=got, range=[mn, mx], sig={"w": w})
                    return
                ctx.bump("filtered_pixels_checked")
                if (~vin).any():
                    ctx.probe("window_with_invalid_neighbour")

    def check_mfi_bands(self, ev, side, cfgp, a, b):
        suffix = cfgp.get("interval_indicator", "")
        names = ["confidence_from_interval_bounds_inf" + ("." + suffix if suffix else ""),
                 "confidence_from_interval_bounds_sup" + ("." + suffix if suffix else "")]
        la, lb = a["indicator"], b["indicator"]
        if la != lb:
            self.v("mfi_changed_band_labels", ev, side)
            return
        ca, cb = a["confidence_measure"], b["confidence_measure"]
        for i, lab in enumerate(la):
            if lab not in names and not same_bits(ca[:, :, i], cb[:, :, i]):
                self.v("mfi_changed_other_band", ev, side, sig={"band": lab})
                return
        if cfgp.get("regularization"):
            self.ctx.probe("mfi_with_regularization")
            return
        w = int(cfgp["filter_size"])
        lo = w // 2
        rows, cols = ca.shape[:2]
        for lab in names:
            i = la.index(lab)
            x0, x1 = ca[:, :, i], cb[:, :, i]
            for r in range(rows):
                for c in range(cols):
                    inside = lo <= r <= rows - 1 - lo and lo <= c <= cols - 1 - lo
                    if not inside or np.isnan(x0[r, c]):
                        if not ((x0[r, c] == x1[r, c]) or (np.isnan(x0[r, c]) and np.isnan(x1[r, c]))):
                            self.v("mfi_band_edge_or_nan_changed", ev, side, pixel=[r, c], sig={"band": lab})
                            return
                        continue
                    win = x0[r - lo:r + lo + 1, c - lo:c + lo + 1]
                    vals = win[~np.isnan(win)]
                    exp = float(np.median(vals))
                    if abs(float(x1[r, c]) - exp) > 1e-6 * max(1.0, abs(exp)):
                        self.v("mfi_band_not_median", ev, side, pixel=[r, c], got=float(x1[r, c]), expected=exp,
                               sig={"band": lab})
                        return
        self.ctx.bump("mfi_band_events_checked")
