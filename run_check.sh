#!/bin/bash
# ./run_check.sh <Cxx> [quick|thorough] [--replay file]
# exit 0 held (KNOWN-FINDING lines possible), 1 VIOLATION, 3 harness error
set -u
cd "$(dirname "$0")"
id="$1"; shift
lc=$(echo "$id" | tr 'A-Z' 'a-z')
tier="${1:-quick}"
limit=3000
if [ "$tier" = "thorough" ]; then limit=14000; fi
exec timeout -k 30 $limit /venv/bin/python "checks/${lc}.py" "$@"
